package cfggen

import (
	"fmt"
	"strings"

	"pgregory.net/rapid"
)

// SrcGen writes free-form native-syntax source files for the writer checks (C20):
// every token kind of the scanner's main mode, the three comment styles, quoted
// templates and heredocs (<<X and <<-X) with interpolations and directives,
// nested blocks with 0-2 labels (quoted and bare), odd spacing, tabs, blank lines,
// LF or CRLF line ends, with or without a final newline.
//
// The text is built from the grammar, so it is syntactically valid by
// construction except for accidental token gluing; callers skip the (rare)
// sources the parser rejects and count them.

type SrcGen struct {
	T    *rapid.T
	CRLF bool
	Feat map[string]int
	n    int

	lastAttr string
}

func (g *SrcGen) feat(k string) {
	if g.Feat != nil {
		g.Feat[k]++
	}
}

func (g *SrcGen) r(label string, n int) int {
	if n <= 1 {
		return 0
	}
	return rapid.IntRange(0, n-1).Draw(g.T, label)
}

func (g *SrcGen) nl() string {
	if g.CRLF {
		return "\r\n"
	}
	return "\n"
}

var srcComments = []string{"c", "TODO: x = 1", "{ unbalanced", "} ]", "\"quote", "${not interp}", "é ✓", "= =", "\\", "<<EOT", "tab\there"}

func (g *SrcGen) ctext() string { return rapid.SampledFrom(srcComments).Draw(g.T, "ctext") }

// inlineComment: wherever one comment can stand, a run of several can: one to
// three /* */ comments with optional space between them.
func (g *SrcGen) inlineComment() string {
	n := 1
	if g.r("comment-run", 3) == 0 {
		n = 2 + g.r("comment-run-len", 2)
		g.feat("comment:run-of-inline")
	}
	var b strings.Builder
	for i := 0; i < n; i++ {
		g.feat("comment:inline")
		if i > 0 {
			b.WriteString(rapid.SampledFrom([]string{"", " ", "\t"}).Draw(g.T, "comment-gap"))
		}
		b.WriteString("/* " + strings.ReplaceAll(g.ctext(), "*/", "*") + " */")
	}
	return b.String()
}

// lineEndComments: the comments that may end a line: optional inline comment(s)
// followed by a # or // comment.
func (g *SrcGen) lineEndComments() string {
	if g.r("inline-before-line-comment", 3) == 0 {
		g.feat("comment:inline-then-line-comment")
		return g.inlineComment() + rapid.SampledFrom([]string{"", " ", "\t"}).Draw(g.T, "comment-gap") + g.lineCommentShort()
	}
	return g.lineCommentShort()
}

// lineComment: a comment that also ends the line.
func (g *SrcGen) lineComment() string {
	switch g.r("cstyle", 3) {
	case 0:
		g.feat("comment:hash")
		return "#" + g.ctext() + g.nl()
	case 1:
		g.feat("comment:slashes")
		return "// " + g.ctext() + g.nl()
	default:
		g.feat("comment:multiline")
		return "/* " + g.ctext() + g.nl() + "\t * more */" + g.nl()
	}
}

// ws: optional space between tokens. nlOK: newlines are insignificant here.
func (g *SrcGen) ws(nlOK bool) string {
	switch g.r("ws", 12) {
	case 0, 1, 2, 3, 4:
		return " "
	case 5:
		return ""
	case 6:
		return "  "
	case 7:
		g.feat("space:tab")
		return "\t"
	case 8:
		g.feat("space:mixed")
		return " \t "
	case 9:
		return " " + g.inlineComment() + " "
	case 10:
		if nlOK {
			g.feat("space:newline-in-brackets")
			return g.nl() + "    "
		}
		return " "
	default:
		if nlOK {
			return " " + g.lineEndComments() + "\t"
		}
		return "   "
	}
}

func (g *SrcGen) lineCommentShort() string {
	if g.r("cstyle2", 2) == 0 {
		g.feat("comment:hash")
		return "# " + g.ctext() + g.nl()
	}
	g.feat("comment:slashes")
	return "//" + g.ctext() + g.nl()
}

// ws1: a separator that is never empty.
func (g *SrcGen) ws1(nlOK bool) string {
	s := g.ws(nlOK)
	if s == "" {
		return " "
	}
	return s
}

var srcIdents = []string{"a", "foo", "bar_1", "with-dash", "é", "_x", "Name", "k8s", "in_", "for_each"}
var srcVars = []string{"var", "local", "x", "each", "a-b", "ü"}
var srcFuncs = []string{"upper", "f", "min", "concat"}

func (g *SrcGen) ident() string { return rapid.SampledFrom(srcIdents).Draw(g.T, "ident") }

func (g *SrcGen) number() string {
	g.feat("tok:number")
	return rapid.SampledFrom([]string{"0", "1", "42", "1.5", "0.25", "1e3", "2E+2", "3e-1", "1000000", "12.5e1"}).Draw(g.T, "num")
}

var litChunks = []string{"a", "hello ", " ", "x=1", "é", "✓", "#", "//", "/*", "*/", "{", "}", "[", "'", ",", "\\n", "\\t", "\\\"", "\\\\", "$${", "%%{", "$", "%", "$$", "~", "\t", "EOT", "<<", "\\x41"}

// quotedLit: literal text inside a quoted template.
func (g *SrcGen) quotedLit() string {
	n := g.r("nchunks", 4)
	var b strings.Builder
	for i := 0; i < n; i++ {
		c := rapid.SampledFrom(litChunks).Draw(g.T, "chunk")
		b.WriteString(c)
	}
	s := b.String()
	// a lone $ or % directly before an interpolation or the closing quote is fine,
	// but "$" + "{" from two chunks would start an interpolation
	s = strings.ReplaceAll(s, "${", "$ {")
	s = strings.ReplaceAll(s, "%{", "% {")
	s = strings.ReplaceAll(s, "$$ {", "$${")
	s = strings.ReplaceAll(s, "%% {", "%%{")
	return s
}

// heredocLit: literal text of one heredoc line (no newline, no backslash processing).
func (g *SrcGen) heredocLit() string {
	s := g.quotedLit()
	s = strings.ReplaceAll(s, "EOT", "E0T")
	return s
}

func (g *SrcGen) strip() string {
	if g.r("strip", 5) == 0 {
		g.feat("template:strip-marker")
		return "~"
	}
	return ""
}

// templateParts: interpolations and directives, shared by quoted and heredoc templates.
func (g *SrcGen) templateSeq(depth int, heredoc bool) string {
	litf := g.quotedLit
	if heredoc {
		litf = g.heredocLit
	}
	switch g.r("tpart", 6) {
	case 0, 1, 2:
		g.feat("template:interp")
		return "${" + g.strip() + g.ws(true) + g.expr(depth-1, true) + g.ws(true) + g.strip() + "}"
	case 3:
		g.feat("template:if")
		s := "%{" + g.strip() + g.ws(false) + "if" + g.ws1(false) + g.expr(depth-1, true) + g.ws(false) + g.strip() + "}" + litf()
		if g.r("else", 2) == 0 {
			s += "%{" + g.ws(false) + "else" + g.ws(false) + "}" + litf()
		}
		return s + "%{" + g.strip() + g.ws(false) + "endif" + g.ws(false) + g.strip() + "}"
	case 4:
		g.feat("template:for")
		v := rapid.SampledFrom([]string{"i", "v", "item"}).Draw(g.T, "forvar")
		return "%{" + g.ws(false) + "for" + g.ws1(false) + v + g.ws1(false) + "in" + g.ws1(false) + g.expr(depth-1, true) + g.ws(false) + g.strip() + "}" + litf() + "${" + v + "}" + "%{" + g.strip() + g.ws(false) + "endfor" + g.ws(false) + "}"
	default:
		return litf()
	}
}

func (g *SrcGen) quoted(depth int) string {
	g.feat("tok:quoted-template")
	var b strings.Builder
	b.WriteByte('"')
	n := g.r("nparts", 4)
	for i := 0; i < n; i++ {
		if depth > 0 && g.r("tkind", 3) == 0 {
			if cur := b.String(); strings.HasSuffix(cur, "$") || strings.HasSuffix(cur, "%") {
				b.WriteString(" ")
			}
			b.WriteString(g.templateSeq(depth, false))
		} else {
			b.WriteString(g.quotedLit())
		}
	}
	b.WriteByte('"')
	return b.String()
}

// heredoc returns the heredoc WITHOUT the newline that must follow the closing marker.
func (g *SrcGen) heredoc(depth int) string {
	marker := rapid.SampledFrom([]string{"EOT", "EOF", "END_1", "é"}).Draw(g.T, "marker")
	flush := g.r("flush", 2) == 0
	var b strings.Builder
	if flush {
		g.feat("tok:heredoc-flush")
		b.WriteString("<<-" + marker + g.nl())
	} else {
		g.feat("tok:heredoc")
		b.WriteString("<<" + marker + g.nl())
	}
	n := g.r("nlines", 4)
	for i := 0; i < n; i++ {
		if flush {
			b.WriteString(rapid.SampledFrom([]string{"", "  ", "    ", "\t"}).Draw(g.T, "hindent"))
		}
		np := g.r("nparts", 3)
		for k := 0; k < np; k++ {
			if depth > 0 && g.r("tkind", 3) == 0 {
				if cur := b.String(); strings.HasSuffix(cur, "$") || strings.HasSuffix(cur, "%") {
					b.WriteString(" ")
				}
				b.WriteString(g.templateSeq(depth, true))
			} else {
				l := g.heredocLit()
				l = strings.ReplaceAll(l, marker, "m")
				b.WriteString(l)
			}
		}
		b.WriteString(g.nl())
	}
	if flush {
		b.WriteString(rapid.SampledFrom([]string{"", "  ", "\t"}).Draw(g.T, "hindent"))
	}
	b.WriteString(marker)
	return b.String()
}

func (g *SrcGen) traversal(depth int) string {
	g.feat("tok:traversal")
	var b strings.Builder
	b.WriteString(rapid.SampledFrom(srcVars).Draw(g.T, "var"))
	n := g.r("nsteps", 4)
	legacy := false
	for i := 0; i < n; i++ {
		switch g.r("step", 8) {
		case 0, 1, 2:
			b.WriteString(g.dotws() + "." + g.dotws() + g.ident())
		case 3:
			b.WriteString(g.ws(false) + "[" + g.ws(true) + rapid.SampledFrom([]string{"0", "1", "12"}).Draw(g.T, "idx") + g.ws(true) + "]")
		case 4:
			b.WriteString("[" + g.ws(true) + "\"" + rapid.SampledFrom([]string{"k", "a b", "é", "x.y"}).Draw(g.T, "key") + "\"" + g.ws(true) + "]")
		case 5:
			if !legacy {
				legacy = true
				g.feat("tok:legacy-index")
				b.WriteString(".0")
				b.WriteString("." + g.ident())
			}
		case 6:
			if depth > 0 {
				g.feat("tok:splat")
				if g.r("fullsplat", 2) == 0 {
					b.WriteString("[*]")
				} else {
					b.WriteString(".*")
				}
			}
		default:
			if depth > 0 {
				b.WriteString("[" + g.ws(true) + g.expr(depth-1, true) + g.ws(true) + "]")
			}
		}
	}
	return b.String()
}

func (g *SrcGen) dotws() string {
	if g.r("dotws", 6) == 0 {
		return " "
	}
	return ""
}

var binOps = []string{"+", "-", "*", "/", "%", "==", "!=", "<", ">", "<=", ">=", "&&", "||"}

// expr writes an expression. nlOK: inside brackets, where newlines are ignored.
func (g *SrcGen) expr(depth int, nlOK bool) string {
	k := g.r("ekind", 16)
	if depth <= 0 && k > 5 {
		k = k % 6
	}
	switch k {
	case 0:
		return g.number()
	case 1:
		return g.quoted(depth)
	case 2:
		return g.traversal(depth)
	case 3:
		g.feat("tok:keyword-literal")
		return rapid.SampledFrom([]string{"true", "false", "null"}).Draw(g.T, "kw")
	case 4:
		return g.traversal(0)
	case 5:
		return g.quoted(0)
	case 6, 7:
		g.feat("tok:binary-op")
		op := rapid.SampledFrom(binOps).Draw(g.T, "op")
		return g.expr(depth-1, nlOK) + g.ws1(nlOK) + op + g.ws1(nlOK) + g.expr(depth-1, nlOK)
	case 8:
		g.feat("tok:unary-op")
		op := rapid.SampledFrom([]string{"-", "!"}).Draw(g.T, "uop")
		sp := ""
		if g.r("unsp", 4) == 0 {
			sp = " "
		}
		return op + sp + g.primaryish(depth-1, nlOK)
	case 9:
		g.feat("tok:conditional")
		return g.expr(depth-1, nlOK) + g.ws1(nlOK) + "?" + g.ws1(nlOK) + g.expr(depth-1, nlOK) + g.ws1(nlOK) + ":" + g.ws1(nlOK) + g.expr(depth-1, nlOK)
	case 10:
		g.feat("tok:parens")
		return "(" + g.ws(true) + g.expr(depth-1, true) + g.ws(true) + ")"
	case 11:
		g.feat("tok:tuple")
		n := g.r("nelem", 4)
		var b strings.Builder
		b.WriteString("[")
		for i := 0; i < n; i++ {
			b.WriteString(g.ws(true) + g.expr(depth-1, true) + g.ws(true))
			if i < n-1 || g.r("trailing", 4) == 0 {
				b.WriteString(",")
			}
		}
		b.WriteString(g.ws(true) + "]")
		return b.String()
	case 12:
		return g.object(depth)
	case 13:
		g.feat("tok:call")
		n := g.r("nargs", 3)
		var b strings.Builder
		b.WriteString(rapid.SampledFrom(srcFuncs).Draw(g.T, "fn"))
		if g.r("callsp", 6) == 0 {
			b.WriteString(" ")
		}
		b.WriteString("(")
		for i := 0; i < n; i++ {
			b.WriteString(g.ws(true) + g.expr(depth-1, true))
			if i < n-1 {
				b.WriteString(g.ws(true) + ",")
			} else if g.r("ellipsis", 4) == 0 {
				g.feat("tok:ellipsis")
				b.WriteString(g.ws(true) + "...")
			}
		}
		b.WriteString(g.ws(true) + ")")
		return b.String()
	case 14:
		g.feat("tok:for-tuple")
		v := rapid.SampledFrom([]string{"v", "i, v", "k,v"}).Draw(g.T, "forvars")
		s := "[" + g.ws(true) + "for" + g.ws1(true) + v + g.ws1(true) + "in" + g.ws1(true) + g.expr(depth-1, true) + g.ws(true) + ":" + g.ws(true) + g.expr(depth-1, true)
		if g.r("forif", 3) == 0 {
			s += g.ws1(true) + "if" + g.ws1(true) + g.expr(depth-1, true)
		}
		return s + g.ws(true) + "]"
	default:
		g.feat("tok:for-object")
		s := "{" + g.ws(true) + "for" + g.ws1(true) + "k, v" + g.ws1(true) + "in" + g.ws1(true) + g.expr(depth-1, true) + g.ws(true) + ":" + g.ws(true) + g.primaryish(depth-1, true) + g.ws(true) + "=>" + g.ws(true) + g.expr(depth-1, true)
		if g.r("group", 3) == 0 {
			s += g.ws(true) + "..."
		}
		if g.r("forif", 3) == 0 {
			s += g.ws1(true) + "if" + g.ws1(true) + g.expr(depth-1, true)
		}
		return s + g.ws(true) + "}"
	}
}

// primaryish: an operand that binds tighter than any operator.
func (g *SrcGen) primaryish(depth int, nlOK bool) string {
	switch g.r("pkind", 4) {
	case 0:
		return g.number()
	case 1:
		return g.traversal(0)
	case 2:
		return g.quoted(0)
	default:
		if depth > 0 {
			return "(" + g.expr(depth-1, true) + ")"
		}
		return g.number()
	}
}

func (g *SrcGen) object(depth int) string {
	g.feat("tok:object")
	n := g.r("nitems", 4)
	if n == 0 {
		return "{" + g.ws(false) + "}"
	}
	multi := g.r("multi", 2) == 0
	var b strings.Builder
	b.WriteString("{")
	for i := 0; i < n; i++ {
		if multi {
			b.WriteString(g.objnl())
		} else {
			b.WriteString(g.ws(false))
		}
		switch g.r("keykind", 4) {
		case 0, 1:
			b.WriteString(g.ident())
		case 2:
			b.WriteString("\"" + rapid.SampledFrom([]string{"k", "a b", "é", "0"}).Draw(g.T, "key") + "\"")
		default:
			b.WriteString("(" + g.traversal(0) + ")")
		}
		if g.r("colon", 4) == 0 {
			g.feat("tok:object-colon")
			b.WriteString(g.ws(false) + ":" + g.ws(false))
		} else {
			b.WriteString(g.ws(false) + "=" + g.ws(false))
		}
		b.WriteString(g.expr(depth-1, false))
		if !multi && i < n-1 {
			b.WriteString(g.ws(false) + ",")
		} else if multi && g.r("comma", 4) == 0 {
			b.WriteString(",")
		}
	}
	if multi {
		b.WriteString(g.objnl())
	} else {
		b.WriteString(g.ws(false))
	}
	b.WriteString("}")
	return b.String()
}

func (g *SrcGen) objnl() string {
	switch g.r("objnl", 5) {
	case 0:
		return " " + g.lineEndComments() + "  "
	case 1:
		return g.nl() + g.nl() + "\t"
	}
	return g.nl() + "    "
}

// ---------------------------------------------------------------- structure

func (g *SrcGen) indent(level int) string {
	switch g.r("indent", 6) {
	case 0:
		return ""
	case 1:
		return strings.Repeat("\t", level)
	case 2:
		return strings.Repeat("    ", level) + " "
	}
	return strings.Repeat("  ", level)
}

// eol: end of a body item.
func (g *SrcGen) eol() string {
	switch g.r("eol", 8) {
	case 0:
		return g.ws(false) + g.lineEndComments()
	case 1:
		g.feat("space:blank-line")
		return g.nl() + g.nl()
	case 2:
		g.feat("space:trailing")
		return " \t" + g.nl()
	case 3:
		return " " + g.inlineComment() + g.nl()
	}
	return g.nl()
}

// braceEol: what follows an opening brace up to the end of its line.
func (g *SrcGen) braceEol() string {
	switch g.r("brace-eol", 6) {
	case 0:
		g.feat("comment:on-brace-line")
		return g.ws(false) + g.lineCommentShort()
	case 1:
		g.feat("comment:on-brace-line")
		g.feat("comment:inline-then-line-comment")
		return g.ws(false) + g.inlineComment() + rapid.SampledFrom([]string{"", " ", "\t"}).Draw(g.T, "comment-gap") + g.lineCommentShort()
	}
	return g.eol()
}

func (g *SrcGen) label() string {
	if g.r("barelabel", 3) == 0 {
		g.feat("label:bare")
		return g.ident()
	}
	g.feat("label:quoted")
	return "\"" + rapid.SampledFrom([]string{"l", "a b", "é", "", "x.y", "q\\\"", "t\\t", "$${x}"}).Draw(g.T, "labeltext") + "\""
}

func (g *SrcGen) name(bases []string, prefix string) string {
	g.n++
	return fmt.Sprintf("%s%s%d", prefix, rapid.SampledFrom(bases).Draw(g.T, "namebase"), g.n)
}

func (g *SrcGen) attr(level, depth int, oneLine bool) string {
	name := g.name([]string{"a", "name", "with-dash", "é", "_u"}, "")
	if g.lastAttr != "" && g.r("prefix-name", 4) == 0 {
		// a name that has an earlier attribute's name as a prefix
		g.feat("attr:name-extends-earlier-name")
		name = g.lastAttr + "x"
	}
	g.lastAttr = name
	s := name + g.ws(false) + "=" + g.ws(false)
	if !oneLine && g.r("heredoc", 6) == 0 {
		return s + g.heredoc(depth) + g.nl()
	}
	e := g.expr(depth, false)
	if oneLine {
		return s + e
	}
	return s + e + g.eol()
}

// Body writes the items of a body. last: the final item may lack its newline
// (only used for the root body).
func (g *SrcGen) Body(level, depth int) string {
	var b strings.Builder
	n := g.r("nitems", 5)
	if level == 0 && n == 0 && g.r("empty-file", 8) != 0 {
		n = 1
	}
	for i := 0; i < n; i++ {
		// leading material
		switch g.r("lead", 9) {
		case 0:
			b.WriteString(g.indent(level) + g.lineComment())
		case 1:
			b.WriteString(g.nl())
		case 2:
			b.WriteString(g.indent(level) + g.lineComment() + g.indent(level) + g.lineCommentShort())
		case 3:
			b.WriteString(g.indent(level) + g.lineCommentShort() + g.nl())
		case 4:
			b.WriteString(g.indent(level) + g.lineEndComments())
		}
		b.WriteString(g.indent(level))
		if g.r("inline-lead", 10) == 0 {
			b.WriteString(g.inlineComment() + " ")
		}
		if level < 3 && g.r("isblock", 3) == 0 {
			b.WriteString(g.block(level, depth))
		} else {
			b.WriteString(g.attr(level, depth, false))
		}
	}
	if g.r("tail-comment", 6) == 0 {
		b.WriteString(g.indent(level) + g.lineCommentShort())
	}
	return b.String()
}

func (g *SrcGen) block(level, depth int) string {
	g.feat("block")
	var b strings.Builder
	b.WriteString(g.name([]string{"blk", "resource", "sub-net", "ü"}, ""))
	nl := rapid.SampledFrom([]int{0, 0, 1, 2}).Draw(g.T, "nlabels")
	for i := 0; i < nl; i++ {
		b.WriteString(g.ws1(false) + g.label())
	}
	b.WriteString(g.ws(false) + "{")
	switch g.r("bform", 6) {
	case 0:
		g.feat("block:empty-one-line")
		b.WriteString(rapid.SampledFrom([]string{"", " ", "\t"}).Draw(g.T, "inner") + "}")
	case 1:
		g.feat("block:one-line")
		b.WriteString(g.ws(false) + g.attr(level+1, depth-1, true) + g.ws(false) + "}")
	default:
		b.WriteString(g.braceEol())
		b.WriteString(g.Body(level+1, depth))
		b.WriteString(g.indent(level))
		if g.r("comment-before-close", 6) == 0 {
			g.feat("comment:before-closing-brace")
			b.WriteString(g.inlineComment() + g.ws(false))
		}
		b.WriteString("}")
	}
	b.WriteString(g.eol())
	return b.String()
}

// File writes a whole file.
func (g *SrcGen) File() string {
	s := g.Body(0, rapid.SampledFrom([]int{0, 1, 2, 2, 3, 3}).Draw(g.T, "exprdepth"))
	if g.r("no-final-newline", 5) == 0 {
		t := strings.TrimRight(s, "\r\n")
		if t != s {
			g.feat("file:no-final-newline")
		}
		// a trailing single-line comment keeps its text but loses the newline too
		s = t
	}
	return s
}

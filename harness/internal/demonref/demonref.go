// Package demonref is the harness's independent implementation of the Demon side of
// the wire protocol, transcribed from the C sources under /repo/payloads/Demon
// (file:line next to every rule), never from the Go teamserver code.
package demonref

import (
	"crypto/aes"
	"crypto/cipher"
	"encoding/binary"
	"unicode/utf16"
)

const (
	Magic = 0xDEADBEEF // include/Demon.h DEMON_MAGIC_VALUE

	CmdGetJob   = 1   // DEMON_COMMAND_GET_JOB
	CmdInit     = 99  // DEMON_INITIALIZE
	CmdCheckin  = 100 // DEMON_COMMAND_CHECKIN
	CmdNoJob    = 10  // DEMON_COMMAND_NO_JOB
	CmdPivot    = 2520
	PivotSmbCmd = 12
	PivotSmbCon = 10
	PivotSmbDis = 11
)

// ---------------------------------------------------------------- agent -> teamserver

// Enc mirrors the PackageAdd* family (src/core/Package.c:49-165): big-endian
// integers, length-prefixed byte strings, no terminators.
type Enc struct{ B []byte }

func (e *Enc) Int32(v uint32) *Enc { // Package.c:49 PackageAddInt32 / :40 Int32ToBuffer
	e.B = binary.BigEndian.AppendUint32(e.B, v)
	return e
}
func (e *Enc) Int64(v uint64) *Enc { // Package.c:69 PackageAddInt64
	e.B = binary.BigEndian.AppendUint64(e.B, v)
	return e
}
func (e *Enc) Bool(v bool) *Enc { // Package.c:87 PackageAddBool
	if v {
		return e.Int32(1)
	}
	return e.Int32(0)
}
func (e *Enc) Ptr(v uint64) *Enc { return e.Int64(v) } // Package.c:107
func (e *Enc) Pad(b []byte) *Enc { // Package.c:112 PackageAddPad (raw, no length)
	e.B = append(e.B, b...)
	return e
}
func (e *Enc) Bytes(b []byte) *Enc { // Package.c:129 PackageAddBytes
	e.Int32(uint32(len(b)))
	e.B = append(e.B, b...)
	return e
}
func (e *Enc) String(s string) *Enc { return e.Bytes([]byte(s)) } // Package.c:153 (StringLengthA, no NUL)
func (e *Enc) WString(s string) *Enc { // Package.c:158 (StringLengthW*2, no NUL)
	return e.Bytes(UTF16LE(s))
}

func UTF16LE(s string) []byte {
	u := utf16.Encode([]rune(s))
	out := make([]byte, 2*len(u))
	for i, x := range u {
		out[2*i] = byte(x)
		out[2*i+1] = byte(x >> 8)
	}
	return out
}

// XCrypt is AES-256-CTR with a big-endian 128-bit counter starting at iv, the mode of
// the Demon's tiny-AES (src/crypt/AesCrypt.c, CTR=1 AES256=1).
func XCrypt(data, key, iv []byte) []byte {
	out := make([]byte, len(data))
	blk, err := aes.NewCipher(key)
	if err != nil {
		panic(err)
	}
	cipher.NewCTR(blk, iv).XORKeyStream(out, data)
	return out
}

func isZero(b []byte) bool {
	for _, x := range b {
		if x != 0 {
			return false
		}
	}
	return true
}

// Header builds [size][magic][agent id][command][request id] (Package.c:181
// PackageCreateWithMetaData); size is patched by Finish.
func Header(magic, agentID, cmd, reqID uint32) *Enc {
	e := &Enc{}
	return e.Int32(0).Int32(magic).Int32(agentID).Int32(cmd).Int32(reqID)
}

// Finish writes the size field (Package.c:246 / :355: Length - sizeof(UINT32)).
func Finish(b []byte) []byte {
	binary.BigEndian.PutUint32(b[0:4], uint32(len(b)-4))
	return b
}

// Sub is one stored package of PackageTransmit (Package.c:283).
type Sub struct {
	Cmd   uint32
	ReqID uint32
	Body  []byte
}

// Batch is PackageTransmitAll (Package.c:325-374): a GET_JOB header followed by
// [cmd][req][len][buf] per stored package, everything after the 20-byte header
// AES-CTR encrypted with the session key.  Encryption is applied iff the key is
// non-zero?  No: the Demon always encrypts; the teamserver always decrypts
// (handlers.go).  A zero key is still a key.
func Batch(agentID uint32, reqID uint32, subs []Sub, key, iv []byte) []byte {
	return BatchRaw(Magic, agentID, CmdGetJob, reqID, subs, key, iv)
}

func BatchRaw(magic, agentID, cmd, reqID uint32, subs []Sub, key, iv []byte) []byte {
	e := Header(magic, agentID, cmd, reqID)
	for _, s := range subs {
		e.Int32(s.Cmd).Int32(s.ReqID).Bytes(s.Body)
	}
	b := Finish(e.B)
	if len(b) > 20 {
		copy(b[20:], XCrypt(b[20:], key, iv))
	}
	return b
}

// Single is PackageTransmitNow for a non-init command (Package.c:232-262): header with
// the command itself, body encrypted after 20 bytes.  The teamserver's loop
// (handlers.go) reads [cmd][req] from the header and then a length-prefixed body,
// which is the PackageTransmitAll layout; the Demon only uses TransmitNow for
// DEMON_INIT, so Single wraps the body in a length prefix to stay in the accepted
// grammar.
func Single(agentID, cmd, reqID uint32, body []byte, key, iv []byte) []byte {
	e := Header(Magic, agentID, cmd, reqID)
	e.Bytes(body)
	b := Finish(e.B)
	copy(b[20:], XCrypt(b[20:], key, iv))
	return b
}

// MetaData mirrors DemonMetaData (src/Demon.c:95-263).
type MetaData struct {
	AgentID      uint32 // inner "Demon ID" (Demon.c:164)
	Hostname     string
	Username     string
	Domain       string
	InternalIP   string
	ProcessPath  string // UTF-16 (Demon.c:242)
	PID, TID     uint32
	PPID         uint32
	ProcessArch  uint32
	Elevated     uint32
	BaseAddress  uint64
	OSMajor      uint32
	OSMinor      uint32
	OSProduct    uint32
	OSServicePck uint32
	OSBuild      uint32
	OSArch       uint32
	Sleep        uint32
	Jitter       uint32
	KillDate     uint64
	WorkingHours uint32
}

// EncodeMeta: [key 32][iv 16] then the (to be encrypted) metadata (Demon.c:160-262).
func (m MetaData) encodeInner() []byte {
	e := &Enc{}
	e.Int32(m.AgentID)
	e.String(m.Hostname).String(m.Username).String(m.Domain).String(m.InternalIP)
	e.WString(m.ProcessPath)
	e.Int32(m.PID).Int32(m.TID).Int32(m.PPID).Int32(m.ProcessArch).Int32(m.Elevated).Int64(m.BaseAddress)
	e.Int32(m.OSMajor).Int32(m.OSMinor).Int32(m.OSProduct).Int32(m.OSServicePck).Int32(m.OSBuild).Int32(m.OSArch)
	e.Int32(m.Sleep).Int32(m.Jitter).Int64(m.KillDate).Int32(m.WorkingHours)
	return e.B
}

// InitBody returns [key][iv][encrypted metadata]: what follows the 20-byte header in a
// DEMON_INIT package, and also the body of a COMMAND_CHECKIN callback
// (Command.c:163 CommandCheckin -> DemonMetaData(&Package, FALSE)), in which case the
// whole body is additionally encrypted as any other callback by the batch layer and
// the metadata part is *not* separately encrypted (the Demon adds fields in clear to
// the package; encryption happens once in PackageTransmitAll).
func (m MetaData) InitBody(key, iv []byte, encryptInner bool) []byte {
	inner := m.encodeInner()
	// Package.c:250-258: for DEMON_INITIALIZE, Padding += 32+16 and the rest is encrypted.
	// The teamserver decrypts only when the key is non-zero (agent.go ParseDemonRegisterRequest),
	// which is the documented "no encryption" mode of a zero key.
	if encryptInner && !isZero(key) {
		inner = XCrypt(inner, key, iv)
	}
	out := append([]byte{}, key...)
	out = append(out, iv...)
	return append(out, inner...)
}

// InitPackage is the full registration request (Demon.c:106 + Package.c:232).
func (m MetaData) InitPackage(headerAgentID uint32, key, iv []byte) []byte {
	e := Header(Magic, headerAgentID, CmdInit, 0)
	e.Pad(m.InitBody(key, iv, true))
	return Finish(e.B)
}

// ---------------------------------------------------------------- teamserver -> agent

// Dec mirrors src/core/Parser.c with Endian == FALSE (little-endian, the mode used by
// CommandDispatcher): short reads return 0 / nil exactly as in C.
type Dec struct {
	B   []byte
	Err bool // set when a read ran past the end (C would read garbage / underflow Length)
}

func (d *Dec) Len() int { return len(d.B) }

func (d *Dec) Int32() uint32 { // Parser.c:66
	if len(d.B) < 4 {
		d.Err = true
		return 0
	}
	v := binary.LittleEndian.Uint32(d.B)
	d.B = d.B[4:]
	return v
}
func (d *Dec) Int64() uint64 { // Parser.c:87
	if len(d.B) < 8 {
		d.Err = true
		return 0
	}
	v := binary.LittleEndian.Uint64(d.B)
	d.B = d.B[8:]
	return v
}
func (d *Dec) Int16() uint16 { // Parser.c:33
	if len(d.B) < 2 {
		d.Err = true
		return 0
	}
	v := binary.LittleEndian.Uint16(d.B)
	d.B = d.B[2:]
	return v
}
func (d *Dec) Byte() byte { // Parser.c:49
	if len(d.B) < 1 {
		d.Err = true
		return 0
	}
	v := d.B[0]
	d.B = d.B[1:]
	return v
}
func (d *Dec) Bool() bool { return d.Int32() != 0 } // Parser.c:108
func (d *Dec) Bytes() []byte { // Parser.c:129
	if len(d.B) < 4 {
		d.Err = true
		return nil
	}
	n := binary.LittleEndian.Uint32(d.B)
	d.B = d.B[4:]
	if uint64(n) > uint64(len(d.B)) {
		// C: Length underflows and Buffer runs past the allocation; model as error
		d.Err = true
		out := d.B
		d.B = nil
		return out
	}
	out := d.B[:n]
	d.B = d.B[n:]
	return out
}

// CString returns the bytes a C handler sees when it treats a ParserGetBytes result
// as a NUL-terminated char*: everything up to the first NUL.
func CString(b []byte) string {
	for i, x := range b {
		if x == 0 {
			return string(b[:i])
		}
	}
	return string(b)
}

// WCString: the UTF-16LE code units up to the first 0x0000 unit, decoded.
func WCString(b []byte) string {
	var u []uint16
	for i := 0; i+1 < len(b); i += 2 {
		x := uint16(b[i]) | uint16(b[i+1])<<8
		if x == 0 {
			break
		}
		u = append(u, x)
	}
	return string(utf16.Decode(u))
}

// Task is one entry of a check-in response as CommandDispatcher sees it
// (Command.c:99-111): command id, request id, and the body decrypted on its own with
// the session key starting at the session IV.
type Task struct {
	Cmd   uint32
	ReqID uint32
	Raw   []byte // body as on the wire
	Body  []byte // decrypted
}

// ReadTasks parses a full response the way the do/while loop of CommandDispatcher
// does, with the loop condition `Parser.Length <op> K` supplied by the caller
// (read from Command.c at run time by LoopCondition). strict=false ignores K and reads
// while at least 12 bytes remain (the wire format itself).
func ReadTasks(resp, key, iv []byte, k int, op string) ([]Task, bool) {
	d := &Dec{B: resp}
	var out []Task
	for {
		if d.Len() < 12 {
			// C would read zeros; a well-formed response never gets here on first iteration
			if len(out) == 0 && d.Len() == 0 {
				return out, true
			}
			return out, d.Len() == 0
		}
		t := Task{Cmd: d.Int32(), ReqID: d.Int32()}
		t.Raw = d.Bytes()
		if d.Err {
			return out, false
		}
		if len(t.Raw) > 0 {
			t.Body = XCrypt(t.Raw, key, iv)
		}
		out = append(out, t)
		cont := false
		switch op {
		case ">":
			cont = d.Len() > k
		case ">=":
			cont = d.Len() >= k
		default:
			cont = d.Len() >= 12
		}
		if !cont {
			break
		}
	}
	return out, d.Len() == 0
}

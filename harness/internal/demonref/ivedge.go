package demonref

// IV classes whose counter block is about to carry.  The Demon's AesXCryptBuffer and
// crypto/cipher's CTR treat all 16 bytes of the IV as one big-endian counter that is
// incremented per 16-byte block, so a key stream computed in any other way (a 32- or
// 64-bit counter, independent segments) differs only for such IVs, from the block at
// which the carry happens.
var IVEdgeNames = []string{"", "all-ff", "low-64-bits-ff", "low-32-bits-ff", "low-32-bits-fffffffe", "low-32-bits-ffffff-f0..ff", "carry-through-15-bytes"}

// ApplyIVEdge returns a copy of iv shaped to class (index into IVEdgeNames; 0 = unchanged);
// n varies the last byte where the class has room for it.
func ApplyIVEdge(iv []byte, class int, n byte) []byte {
	out := append([]byte(nil), iv...)
	if len(out) != 16 {
		return out
	}
	ff := func(from int) {
		for i := from; i < 16; i++ {
			out[i] = 0xff
		}
	}
	switch class {
	case 1:
		ff(0)
	case 2:
		ff(8)
	case 3:
		ff(12)
	case 4:
		ff(12)
		out[15] = 0xfe
	case 5:
		ff(12)
		out[15] = 0xf0 | n&0x0f
	case 6:
		ff(1)
		out[15] = 0xfe
	}
	return out
}

// IVEdgeOf names the class of iv ("" = none of them).
func IVEdgeOf(iv []byte) string {
	if len(iv) != 16 {
		return ""
	}
	n := 0
	for i := 15; i >= 0 && iv[i] == 0xff; i-- {
		n++
	}
	switch {
	case n == 16:
		return "all-ff"
	case n >= 8:
		return "low-64-bits-ff"
	case n >= 4:
		return "low-32-bits-ff"
	case iv[12] == 0xff && iv[13] == 0xff && iv[14] == 0xff && iv[15] >= 0xf0:
		return "low-32-bits-about-to-carry"
	}
	return ""
}

package agx

// Self-test of HTTPReq.Parse: what it delivers to a handler (or refuses) must be what a real
// net/http server delivers (or answers by itself) for the same bytes on a socket.

import (
	"bufio"
	"bytes"
	"fmt"
	"io"
	"net"
	"net/http"
	"sort"
	"strings"
	"sync"
	"testing"
	"time"
)

type seen struct {
	called bool
	desc   string
}

func describe(r *http.Request) string {
	body, err := io.ReadAll(r.Body)
	var keys []string
	for k := range r.Header {
		keys = append(keys, k)
	}
	sort.Strings(keys)
	var sb strings.Builder
	fmt.Fprintf(&sb, "%s %q %s host=%q cl=%d te=%v ua=%q\n", r.Method, r.RequestURI, r.Proto, r.Host, r.ContentLength, r.TransferEncoding, r.UserAgent())
	for _, k := range keys {
		fmt.Fprintf(&sb, "%q=%q\n", k, r.Header[k])
	}
	fmt.Fprintf(&sb, "path=%q raw=%q q=%q\n", r.URL.Path, r.URL.RawPath, r.URL.RawQuery)
	fmt.Fprintf(&sb, "body=%x err=%v\n", body, err != nil)
	return sb.String()
}

func TestParseMatchesRealServer(t *testing.T) {
	var mu sync.Mutex
	var last seen
	var cur string
	srv := &http.Server{Handler: http.HandlerFunc(func(w http.ResponseWriter, r *http.Request) {
		id := r.Header.Get("X-Test-Id")
		r.Header.Del("X-Test-Id")
		d := describe(r)
		mu.Lock()
		if id == cur {
			last = seen{called: true, desc: d}
		}
		mu.Unlock()
		w.WriteHeader(204)
	})}
	ln, err := net.Listen("tcp", "127.0.0.1:0")
	if err != nil {
		t.Skip("no loopback socket: " + err.Error())
	}
	go srv.Serve(ln)
	defer srv.Close()

	long := strings.Repeat("a", 8193)
	var many [][2]string
	for i := 0; i < 1025; i++ {
		many = append(many, [2]string{"X-Forwarded-For", fmt.Sprintf("10.0.%d.%d", i/256, i%256)})
	}
	body := []byte("\x00\x00\x00\x10hello body bytes")
	reqs := []HTTPReq{
		{},
		{Method: "GET"}, {Method: "PUT"}, {Method: "HEAD"}, {Method: "OPTIONS", Target: "*"}, {Method: "post"}, {Method: "BREW"}, {Method: "PO ST"}, {Method: "P\x00ST"}, {Method: "P(ST"},
		{Target: "/index.php?id=1&x=%20"}, {Target: "//"}, {Target: "/../../etc/passwd"}, {Target: "/a%00b"}, {Target: "/a\x00b"}, {Target: "/%zz"}, {Target: "/" + long}, {Target: "/é"}, {Target: "http://evil.example/x"}, {Target: "http://evil.example"}, {Target: "/a b"}, {Target: "/a#frag"}, {Target: "/?"}, {Target: "x"},
		{Proto: "HTTP/1.0"}, {Proto: "HTTP/1.0", NoHost: true}, {NoHost: true}, {Proto: "HTTP/2.0"}, {Proto: "HTTP/1.9"}, {Proto: "http/1.1"},
		{Headers: [][2]string{{"X-Forwarded-For", ""}}}, {Headers: [][2]string{{"X-Forwarded-For", "   "}}}, {Headers: [][2]string{{"X-Forwarded-For", ","}}}, {Headers: [][2]string{{"X-Forwarded-For", " , ,, "}}},
		{Headers: [][2]string{{"X-Forwarded-For", "\t1.2.3.4\t"}}}, {Headers: [][2]string{{"X-Forwarded-For", "1.2.3.4,\t5.6.7.8"}}}, {Headers: [][2]string{{"X-Forwarded-For", "a\x01b"}}}, {Headers: [][2]string{{"X-Forwarded-For", "a\x7fb"}}},
		{Headers: [][2]string{{"X-Forwarded-For", "a\x00b"}}}, {Headers: [][2]string{{"X-Forwarded-For", "a\rb"}}}, {Headers: [][2]string{{"X-Forwarded-For", "a\nb"}}}, {Headers: [][2]string{{"X-Forwarded-For", "a\r\n b"}}}, {Headers: [][2]string{{"X-Forwarded-For", "a\r\nInjected: 1"}}},
		{Headers: [][2]string{{"X-Forwarded-For", "日本, ü"}}}, {Headers: [][2]string{{"X-Forwarded-For", long}}}, {Headers: many},
		{Headers: [][2]string{{"x-forwarded-for", "1.1.1.1"}, {"X-FORWARDED-FOR", "2.2.2.2"}}},
		{Headers: [][2]string{{"User-Agent", ""}}}, {Headers: [][2]string{{"User-Agent", "Mozilla/5.0 (X11)"}, {"User-Agent", "second"}}},
		{Headers: [][2]string{{"Host", "a.example"}}}, {Headers: [][2]string{{"Host", "a.example"}, {"Host", "b.example"}}}, {Headers: [][2]string{{"Host", ""}}}, {Headers: [][2]string{{"Host", "a b"}}}, {Headers: [][2]string{{"Host", "[fe80::1%25eth0]:80"}}}, {Headers: [][2]string{{"Host", "a/b"}}}, {Headers: [][2]string{{"host", "é"}}},
		{Headers: [][2]string{{"Content-Length", "5"}}}, {Headers: [][2]string{{"Content-Length", "0"}}}, {Headers: [][2]string{{"Content-Length", "99999"}}}, {Headers: [][2]string{{"Content-Length", "-1"}}}, {Headers: [][2]string{{"Content-Length", "abc"}}}, {Headers: [][2]string{{"Content-Length", ""}}}, {Headers: [][2]string{{"Content-Length", "5"}, {"Content-Length", "6"}}}, {Headers: [][2]string{{"Content-Length", "5"}, {"Content-Length", "5"}}}, {Headers: [][2]string{{"Content-Length", "+5"}}}, {Headers: [][2]string{{"Content-Length", "18446744073709551616"}}},
		{Headers: [][2]string{{"Transfer-Encoding", "chunked"}}}, {Headers: [][2]string{{"Transfer-Encoding", "gzip"}}}, {Headers: [][2]string{{"Transfer-Encoding", "identity"}}}, {Headers: [][2]string{{"Transfer-Encoding", ""}}}, {Headers: [][2]string{{"Transfer-Encoding", "chunked"}, {"Content-Length", "3"}}}, {Headers: [][2]string{{"Transfer-Encoding", "CHUNKED"}}}, {Proto: "HTTP/1.0", Headers: [][2]string{{"Transfer-Encoding", "chunked"}}},
		{ChunkBody: true, Headers: [][2]string{{"Transfer-Encoding", "chunked"}}}, {ChunkBody: true},
		{Headers: [][2]string{{"Connection", "close"}}}, {Headers: [][2]string{{"Connection", "keep-alive, Upgrade"}, {"Upgrade", "h2c"}}}, {Headers: [][2]string{{"Expect", "100-continue"}}}, {Headers: [][2]string{{"Expect", "nothing"}}},
		{Headers: [][2]string{{"Content-Type", "application/x-www-form-urlencoded"}}}, {Headers: [][2]string{{"Content-Type", "multipart/form-data; boundary="}}},
		{Headers: [][2]string{{"", "v"}}}, {Headers: [][2]string{{"Bad Name", "v"}}}, {Headers: [][2]string{{"Bad\x00Name", "v"}}}, {Headers: [][2]string{{"Naïve", "v"}}}, {Headers: [][2]string{{"X-A:", "v"}}}, {Headers: [][2]string{{" Lead", "v"}}}, {Headers: [][2]string{{"Pragma", "no-cache"}}},
	}
	for i, r := range reqs {
		for _, b := range [][]byte{body, nil} {
			wire := r.Wire(b)
			id := fmt.Sprintf("%d-%d", i, len(b))
			wire = bytes.Replace(wire, []byte("\r\n"), []byte("\r\nX-Test-Id: "+id+"\r\n"), 1)
			mu.Lock()
			last = seen{}
			cur = id
			mu.Unlock()
			c, err := net.Dial("tcp", ln.Addr().String())
			if err != nil {
				t.Fatal(err)
			}
			c.SetDeadline(time.Now().Add(3 * time.Second))
			c.Write(wire)
			c.(*net.TCPConn).CloseWrite()
			method := r.Method
			if method == "" {
				method = "POST"
			}
			br := bufio.NewReader(c)
			resp, rerr := http.ReadResponse(br, &http.Request{Method: method})
			if rerr == nil && resp.StatusCode == 100 {
				resp, rerr = http.ReadResponse(br, &http.Request{Method: method})
			}
			status := 0
			if rerr == nil {
				status = resp.StatusCode
			}
			c.Close()
			mu.Lock()
			real := last
			mu.Unlock()

			req, why := r.Parse(b)
			got := seen{}
			if req != nil {
				got = seen{called: true, desc: describe(req)}
			}
			if got.called != real.called {
				t.Errorf("request %d %q: real server called handler=%v (status %d, %v), Parse delivered=%v (%s)", i, clipS(wire), real.called, status, rerr, got.called, why)
				continue
			}
			if got.called && got.desc != real.desc {
				t.Errorf("request %d %q:\n--- real\n%.600s\n--- parse\n%.600s", i, clipS(wire), real.desc, got.desc)
			}
		}
	}
}

func clipS(b []byte) string {
	if i := bytes.Index(b, []byte("\r\n\r\n")); i >= 0 {
		b = b[:i]
	}
	if len(b) > 120 {
		b = b[:120]
	}
	return string(b)
}

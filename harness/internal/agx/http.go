package agx

// The HTTP layer of the fixture (wave 14: configuration dimension).
//
//   HTTPOpts  the configuration of the HTTP listener as (*HTTP).request reads it; a World built with
//             NewWorldOpts carries it, and every request of the historical helpers (Post, PostFrom, PostCL,
//             Register, Checkin) then goes out in the shape that configuration demands (w.Base).
//   HTTPReq   the HTTP layer of ONE request as the peer controls it: method, request-target, protocol
//             version, header lines in the order written, remote address.  Do serialises it to the bytes
//             a peer would put on the wire, parses them with net/http's own request reader followed by the
//             checks net/http's server applies before it calls a handler (Host present for HTTP/1.1,
//             Host / field name / field value syntax, Expect), and - if net/http would call the handler -
//             calls the listener's gin engine (or the External-C2 handler) in-process, so that a panic of the
//             handler reaches the caller.  A request net/http answers itself is reported as not delivered.
//
// Existing callers are unaffected: NewWorld builds the historical unconstrained listener, Base is nil.

import (
	"bufio"
	"bytes"
	"fmt"
	"io"
	"net/http"
	"net/http/httptest"
	"net/textproto"
	"strings"

	"Havoc/pkg/profile"

	"github.com/gin-gonic/gin"
)

type HTTPOpts struct {
	BehindRedir bool     `json:"behind_redir,omitempty"` // profile Demon { TrustXForwardedFor = true }
	Uris        []string `json:"uris,omitempty"`
	Headers     []string `json:"headers,omitempty"` // "Name: value"
	UserAgent   string   `json:"user_agent,omitempty"`
	HostHeader  string   `json:"host_header,omitempty"`
	Methode     string   `json:"methode,omitempty"`
	RespHeaders []string `json:"resp_headers,omitempty"`
}

type HTTPReq struct {
	Method  string      `json:"method,omitempty"`  // "" = POST
	Target  string      `json:"target,omitempty"`  // request-target as written on the request line; "" = "/"
	Proto   string      `json:"proto,omitempty"`   // "" = HTTP/1.1
	Headers [][2]string `json:"headers,omitempty"` // header lines in order; Host and Content-Length are added when no line names them
	Remote  string      `json:"remote,omitempty"`  // "" = 10.1.2.3:40000
	NoHost  bool        `json:"no_host,omitempty"` // do not add a Host line
	// ChunkBody: the body is written in chunked transfer coding (two chunks), as a peer that announces
	// "Transfer-Encoding: chunked" and means it would
	ChunkBody bool `json:"chunk_body,omitempty"`
}

type HTTPResult struct {
	Delivered bool          // net/http would have called the handler (and the handler has been called)
	Req       *http.Request // the request as the handler got it
	Reject    string        // why not
	Code      int           // handler's status
	Body      []byte        // handler's reply
	Header    http.Header   // handler's reply headers
	BodySeen  []byte        // the request body as the handler could read it (after Content-Length / chunked framing)
	BodyErr   error         // the error the handler's read of the body ended with (nil: clean EOF)
}

// NewWorldOpts is NewWorld with a configured HTTP listener (nil = the historical default).
func NewWorldOpts(prof *profile.Profile, o *HTTPOpts) (*World, error) {
	return newWorldOpts(prof, false, o)
}

// Conforming returns the request shape the configuration demands (nil if it demands nothing).
func (o *HTTPOpts) Conforming() *HTTPReq {
	if o == nil {
		return nil
	}
	r := &HTTPReq{}
	for _, u := range o.Uris {
		if u != "" {
			r.Target = u
			break
		}
	}
	for _, h := range o.Headers {
		if nv := strings.SplitN(h, ": ", 2); len(nv) == 2 {
			r.Headers = append(r.Headers, [2]string{nv[0], nv[1]})
		}
	}
	if o.UserAgent != "" {
		r.Headers = append(r.Headers, [2]string{"User-Agent", o.UserAgent})
	}
	if r.Target == "" && len(r.Headers) == 0 {
		return nil
	}
	return r
}

// newPost builds the request of the historical helpers: POST / without headers, or the shape w.Base demands.
func (w *World) newPost(body []byte, remote string) *http.Request {
	target := "/"
	if w.Base != nil && w.Base.Target != "" {
		target = w.Base.Target
	}
	req := httptest.NewRequest(http.MethodPost, target, bytes.NewReader(body))
	req.RemoteAddr = remote
	if w.Base != nil {
		for _, kv := range w.Base.Headers {
			req.Header.Add(kv[0], kv[1])
		}
	}
	return req
}

// Wire returns the bytes of the request as the peer writes them.
func (r HTTPReq) Wire(body []byte) []byte {
	method, target, proto := r.Method, r.Target, r.Proto
	if method == "" {
		method = http.MethodPost
	}
	if target == "" {
		target = "/"
	}
	if proto == "" {
		proto = "HTTP/1.1"
	}
	var b bytes.Buffer
	fmt.Fprintf(&b, "%s %s %s\r\n", method, target, proto)
	haveHost, haveLen := r.NoHost, false
	for _, kv := range r.Headers {
		switch textproto.CanonicalMIMEHeaderKey(kv[0]) {
		case "Host":
			haveHost = true
		case "Content-Length", "Transfer-Encoding":
			haveLen = true
		}
	}
	if !haveHost {
		b.WriteString("Host: 127.0.0.1\r\n")
	}
	for _, kv := range r.Headers {
		b.WriteString(kv[0] + ": " + kv[1] + "\r\n")
	}
	if !haveLen {
		fmt.Fprintf(&b, "Content-Length: %d\r\n", len(body))
	}
	b.WriteString("\r\n")
	if r.ChunkBody {
		h := len(body) / 2
		for _, part := range [][]byte{body[:h], body[h:]} {
			if len(part) > 0 {
				fmt.Fprintf(&b, "%x\r\n", len(part))
				b.Write(part)
				b.WriteString("\r\n")
			}
		}
		b.WriteString("0\r\n\r\n")
		return b.Bytes()
	}
	b.Write(body)
	return b.Bytes()
}

// the three syntax checks of golang.org/x/net/http/httpguts that net/http's server applies (transcribed)
func isTokenByte(c byte) bool {
	switch {
	case c >= 'a' && c <= 'z', c >= 'A' && c <= 'Z', c >= '0' && c <= '9':
		return true
	}
	return strings.IndexByte("!#$%&'*+-.^_`|~", c) >= 0
}

func validFieldName(s string) bool {
	if s == "" {
		return false
	}
	for i := 0; i < len(s); i++ {
		if !isTokenByte(s[i]) {
			return false
		}
	}
	return true
}

func validFieldValue(s string) bool {
	for i := 0; i < len(s); i++ {
		c := s[i]
		if (c < ' ' || c == 0x7f) && c != '\t' {
			return false
		}
	}
	return true
}

func validHostHeader(s string) bool {
	for i := 0; i < len(s); i++ {
		c := s[i]
		switch {
		case c >= 'a' && c <= 'z', c >= 'A' && c <= 'Z', c >= '0' && c <= '9':
		case strings.IndexByte("!$&'()*+,;=:[]-._~%", c) >= 0:
		default:
			return false
		}
	}
	return true
}

// Parse runs the wire bytes through net/http's request reader and the pre-handler checks of its server.
// It returns the request a handler would get, or why net/http would answer by itself.
func (r HTTPReq) Parse(body []byte) (*http.Request, string) {
	wire := r.Wire(body)
	req, err := http.ReadRequest(bufio.NewReader(bytes.NewReader(wire)))
	if err != nil {
		return nil, "read-request: " + err.Error()
	}
	if req.ProtoMajor != 1 {
		return nil, "unsupported protocol version"
	}
	// the Host lines as the reader saw them (ReadRequest has removed them from the header map)
	tp := textproto.NewReader(bufio.NewReader(bytes.NewReader(wire)))
	tp.ReadLine()
	mh, _ := tp.ReadMIMEHeader()
	hosts := mh["Host"]
	if req.ProtoAtLeast(1, 1) && len(hosts) == 0 && req.Method != "CONNECT" {
		return nil, "missing required Host header"
	}
	if len(hosts) == 1 && !validHostHeader(hosts[0]) {
		return nil, "malformed Host header"
	}
	for k, vv := range req.Header {
		if !validFieldName(k) {
			return nil, "invalid header name"
		}
		for _, v := range vv {
			if !validFieldValue(v) {
				return nil, "invalid header value"
			}
		}
	}
	if e := req.Header.Get("Expect"); e != "" && !(req.ProtoAtLeast(1, 1) && strings.EqualFold(e, "100-continue")) {
		return nil, "expectation failed"
	}
	if req.Method == "OPTIONS" && req.RequestURI == "*" {
		return nil, "OPTIONS * is answered by net/http"
	}
	if r.Remote != "" {
		req.RemoteAddr = r.Remote
	} else {
		req.RemoteAddr = "10.1.2.3:40000"
	}
	return req, ""
}

// errReader yields b, then err (io.EOF if nil).
type errReader struct {
	r   *bytes.Reader
	err error
}

func (e *errReader) Read(p []byte) (int, error) {
	n, err := e.r.Read(p)
	if err == io.EOF && e.err != nil {
		return n, e.err
	}
	return n, err
}

// Prepared is a request after net/http's reader: what a handler would get, and the body as it could read it.
type Prepared struct {
	Req      *http.Request // nil: net/http answers by itself (Reject says why)
	Reject   string
	BodySeen []byte
	BodyErr  error
}

// Prepare parses the request and reads its body through the framing the request announces.
func (r HTTPReq) Prepare(body []byte) Prepared {
	req, why := r.Parse(body)
	if req == nil {
		return Prepared{Reject: why}
	}
	seen, berr := io.ReadAll(req.Body)
	return Prepared{Req: req, BodySeen: seen, BodyErr: berr}
}

// Send hands a prepared request to the HTTP listener's engine (ext: to the External-C2 handler).
func (w *World) Send(p Prepared, ext bool) HTTPResult {
	if p.Req == nil {
		return HTTPResult{Reject: p.Reject}
	}
	req := p.Req
	req.Body = io.NopCloser(&errReader{r: bytes.NewReader(p.BodySeen), err: p.BodyErr})
	rr := httptest.NewRecorder()
	if ext {
		ctx, _ := gin.CreateTestContext(rr)
		ctx.Request = req
		w.Ext.Request(ctx)
	} else {
		w.H.GinEngine.ServeHTTP(rr, req)
	}
	return HTTPResult{Delivered: true, Req: req, Code: rr.Code, Body: rr.Body.Bytes(), Header: rr.Header(), BodySeen: p.BodySeen, BodyErr: p.BodyErr}
}

// Do is Prepare + Send.
func (w *World) Do(r HTTPReq, body []byte, ext bool) HTTPResult {
	return w.Send(r.Prepare(body), ext)
}

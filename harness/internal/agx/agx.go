// Package agx is the fixture of the agent-protocol checks (C01, C02, C03, C08): a real
// server.Teamserver on a private sqlite file with one real HTTP listener whose gin
// engine is driven in-process, plus helpers that play the Demon through demonref.
package agx

import (
	"bytes"
	"fmt"
	"net/http"
	"net/http/httptest"
	"os"
	"time"

	"Havoc/cmd/server"
	"Havoc/pkg/agent"
	"Havoc/pkg/handlers"
	"Havoc/pkg/packager"
	"Havoc/pkg/profile"

	"github.com/gin-gonic/gin"

	"verifharness/internal/demonref"
	"verifharness/internal/tsx"
)

type World struct {
	Dir string
	TS  *server.Teamserver
	H   *handlers.HTTP
	Ext *handlers.External
	noSocket bool
	// Opts: the configuration the HTTP listener was built with (nil = the historical default);
	// Base: the request shape that configuration demands, applied by Post / PostFrom / PostCL (http.go)
	Opts *HTTPOpts
	Base *HTTPReq
}

func init() { gin.SetMode(gin.ReleaseMode) }

// ScratchBase prefers a memory-backed directory (sqlite fsyncs dominate the per-case
// cost on disk); "" means the default temp dir.
func ScratchBase() string {
	// a harness that runs a case in a child process of its own gives the child a directory it removes afterwards
	if d := os.Getenv("AGX_SCRATCH"); d != "" {
		return d
	}
	if st, err := os.Stat("/dev/shm"); err == nil && st.IsDir() {
		return "/dev/shm"
	}
	return ""
}

// NewWorld builds the teamserver, starts (and immediately closes the socket of) one
// HTTP listener named "http" with no URI/header/user-agent constraints, and one
// External-C2 endpoint "ext".
func NewWorld(prof *profile.Profile) (*World, error) { return newWorld(prof, false) }

// NewWorldNoSocket is NewWorld for checks built with -race: the listener is given a port that
// cannot be bound ("-1"), so the goroutine Start() spawns fails in net.Listen at once, reports
// EventListenerError and ends.  The harness waits for that event under the teamserver's own
// events mutex (a clean happens-before edge) and never touches h.Server, which that goroutine
// writes without synchronisation.
func NewWorldNoSocket(prof *profile.Profile) (*World, error) { return newWorld(prof, true) }

func newWorld(prof *profile.Profile, noSocket bool) (*World, error) {
	return newWorldOpts(prof, noSocket, nil)
}

func newWorldOpts(prof *profile.Profile, noSocket bool, o *HTTPOpts) (*World, error) {
	dir, err := os.MkdirTemp(ScratchBase(), "agx-")
	if err != nil {
		return nil, err
	}
	ts, err := tsx.NewTS(dir, prof)
	if err != nil {
		os.RemoveAll(dir)
		return nil, err
	}
	ts.Server.Engine = gin.New()
	w := &World{Dir: dir, TS: ts}

	h := handlers.NewConfigHttp()
	h.Config = handlers.HTTPConfig{Name: "http", Hosts: []string{"127.0.0.1"}, HostBind: "127.0.0.1", PortBind: "0", HostRotation: "round-robin"}
	h.Teamserver = ts
	if noSocket {
		h.Config.PortBind = "-1"
	}
	if o != nil {
		// what ListenerStart / the profile loader copy into the handler's configuration (cmd/server/teamserver.go, dispatch.go)
		if ts.Profile != nil && ts.Profile.Config.Demon != nil {
			ts.Profile.Config.Demon.TrustXForwardedFor = o.BehindRedir
		}
		h.Config.BehindRedir = o.BehindRedir
		h.Config.Uris = o.Uris
		h.Config.Headers = o.Headers
		h.Config.UserAgent = o.UserAgent
		h.Config.HostHeader = o.HostHeader
		h.Config.Methode = o.Methode
		h.Config.Response.Headers = o.RespHeaders
		w.Opts = o
		w.Base = o.Conforming()
	}
	h.Start()
	ts.Listeners = append(ts.Listeners, &server.Listener{Name: "http", Type: handlers.LISTENER_HTTP, Config: h})
	w.H = h
	deadline := time.Now().Add(5 * time.Second)
	if noSocket {
		for time.Now().Before(deadline) {
			failed := false
			ts.EventsMutex.Lock()
			for _, ev := range ts.EventsList {
				if ev.Head.Event == packager.Type.Listener.Type && ev.Body.SubEvent == packager.Type.Listener.Error {
					failed = true
				}
			}
			ts.EventsMutex.Unlock()
			if failed {
				break
			}
			time.Sleep(200 * time.Microsecond)
		}
		w.noSocket = true
	} else {
		// the listener's own socket is not needed: close it as soon as it exists
		for h.Server == nil && time.Now().Before(deadline) {
			time.Sleep(200 * time.Microsecond)
		}
		if h.Server != nil {
			h.Server.Close()
		}
	}

	if err := ts.ListenerStart(handlers.LISTENER_EXTERNAL, handlers.ExternalConfig{Name: "ext", Endpoint: "ext"}); err == nil {
		for _, l := range ts.Listeners {
			if e, ok := l.Config.(*handlers.External); ok {
				w.Ext = e
			}
		}
	}
	return w, nil
}

func (w *World) Close() {
	if !w.noSocket && w.H != nil && w.H.Server != nil {
		w.H.Server.Close()
	}
	tsx.CloseTS(w.TS)
	os.RemoveAll(w.Dir)
}

// Post sends body to the HTTP listener's engine as the Demon would (POST /).
func (w *World) Post(body []byte) (int, []byte) {
	return w.PostFrom(body, "10.1.2.3:40000")
}

func (w *World) PostFrom(body []byte, remote string) (int, []byte) {
	req := w.newPost(body, remote)
	rr := httptest.NewRecorder()
	w.H.GinEngine.ServeHTTP(rr, req)
	return rr.Code, rr.Body.Bytes()
}

// PostExt sends body to the External-C2 handler.
func (w *World) PostExt(body []byte) (int, []byte) { return w.PostExtCL(body, nil) }

// PostCL / PostExtCL are Post / PostExt with the request's announced Content-Length set to *cl
// (what a peer writing its own HTTP framing can claim), whatever the body really holds.
func (w *World) PostCL(body []byte, cl *int64) (int, []byte) {
	req := w.newPost(body, "10.1.2.3:40000")
	if cl != nil {
		req.ContentLength = *cl
	}
	rr := httptest.NewRecorder()
	w.H.GinEngine.ServeHTTP(rr, req)
	return rr.Code, rr.Body.Bytes()
}

func (w *World) PostExtCL(body []byte, cl *int64) (int, []byte) {
	rr := httptest.NewRecorder()
	ctx, _ := gin.CreateTestContext(rr)
	req := httptest.NewRequest(http.MethodPost, "/ext", bytes.NewReader(body))
	req.RemoteAddr = "10.1.2.4:40001"
	if cl != nil {
		req.ContentLength = *cl
	}
	ctx.Request = req
	w.Ext.Request(ctx)
	return rr.Code, rr.Body.Bytes()
}

// Sess is the harness's view of one Demon.
type Sess struct {
	ID   uint32
	Key  []byte
	IV   []byte
	Meta demonref.MetaData
}

func (s Sess) NameID() string { return fmt.Sprintf("%08x", s.ID) }

// DefaultMeta gives plausible registration metadata for id.
func DefaultMeta(id uint32) demonref.MetaData {
	return demonref.MetaData{
		AgentID: id, Hostname: "WS-01", Username: "alice", Domain: "corp.local", InternalIP: "10.0.0.5",
		ProcessPath: "C:\\Windows\\System32\\notepad.exe", PID: 4242, TID: 17, PPID: 600, ProcessArch: 2, Elevated: 1,
		BaseAddress: 0x7ff600000000, OSMajor: 10, OSMinor: 0, OSProduct: 1, OSServicePck: 0, OSBuild: 19045, OSArch: 9,
		Sleep: 2, Jitter: 10, KillDate: 0, WorkingHours: 0,
	}
}

// Register sends a DEMON_INIT for s and returns status and reply.
func (w *World) Register(s Sess) (int, []byte) {
	return w.Post(s.Meta.InitPackage(s.ID, s.Key, s.IV))
}

// Checkin sends a GET_JOB batch with the given callbacks and returns the decoded tasks.
func (w *World) Checkin(s Sess, subs []demonref.Sub) (int, []demonref.Task, []byte, bool) {
	code, resp := w.Post(demonref.Batch(s.ID, 0, subs, s.Key, s.IV))
	tasks, ok := demonref.ReadTasks(resp, s.Key, s.IV, 0, "")
	return code, tasks, resp, ok
}

// Agent returns the teamserver's session object for id (nil if none).
func (w *World) Agent(id uint32) *agent.Agent { return w.TS.AgentInstance(int(id)) }

// AgentsWithID counts sessions whose NameID is the %08x of id.
func (w *World) AgentsWithID(id uint32) int {
	n := 0
	for _, a := range w.TS.Agents.Agents {
		if a != nil && a.NameID == fmt.Sprintf("%08x", id) {
			n++
		}
	}
	return n
}

// Input dispatches an operator "Session/Input" package exactly as handleRequest does
// after authentication (teamserver.go: EventAppend + DispatchEvent).
func (w *World) Input(user string, info map[string]interface{}) {
	pk := packager.Package{}
	pk.Head.Event = packager.Type.Session.Type
	pk.Head.User = user
	pk.Head.Time = "01/01/2026 00:00:00"
	pk.Body.SubEvent = packager.Type.Session.Input
	pk.Body.Info = info
	w.TS.EventAppend(pk)
	w.TS.DispatchEvent(pk)
}

// ConsoleMessages returns the JSON "Output" strings of DemonOutput events recorded
// since index from (events are retained in TS.EventsList).
func (w *World) EventsSince(from int) []packager.Package {
	if from > len(w.TS.EventsList) {
		from = len(w.TS.EventsList)
	}
	return append([]packager.Package(nil), w.TS.EventsList[from:]...)
}

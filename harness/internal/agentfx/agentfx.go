// Package agentfx is the fixture shared by the C04 and C05 checks: the real
// agent-facing HTTP endpoint of the teamserver (handlers.HTTP.request ->
// parseAgentRequest -> handleDemonAgent) driven in-process through its gin engine,
// without a socket, on top of a tsx.Recorder.
package agentfx

import (
	"bytes"
	"fmt"
	"net/http"
	"net/http/httptest"
	"sync"
	"time"

	"Havoc/pkg/agent"
	"Havoc/pkg/handlers"

	"github.com/gin-gonic/gin"
	"pgregory.net/rapid"

	"verifharness/internal/demonref"
	"verifharness/internal/tsx"
)

// Endpoint is one started handlers.HTTP whose routes are reachable through Serve.
type Endpoint struct {
	H *handlers.HTTP
}

var (
	once   sync.Once
	shared *Endpoint
	shErr  error
)

// Shared returns the process-wide endpoint and makes rec the teamserver it reports to.
//
// handlers.HTTP.Start() is the only way to get the (unexported) request handler
// registered on the engine; it also spawns a goroutine that opens the TCP listener.
// The harness never needs that socket, so the endpoint is configured with a port that
// cannot be bound ("-1"): the goroutine fails in net.Listen immediately, reports
// EventListenerError to the recorder it was started with and ends.  Waiting for that
// event (read under the recorder's mutex) gives a clean happens-before edge, so neither
// a listening socket nor a background goroutine outlives this function, and no harness
// read ever races with the goroutine's writes to h.Server / h.Active.
// Must not be called concurrently with a request being served.
func Shared(rec *tsx.Recorder) (*Endpoint, error) {
	once.Do(func() {
		tsx.Quiet()
		gin.SetMode(gin.ReleaseMode)
		boot := tsx.NewRecorder()
		h := handlers.NewConfigHttp()
		h.Config = handlers.HTTPConfig{Name: "l", HostBind: "127.0.0.1", PortBind: "-1"}
		h.Teamserver = boot
		h.Start()
		deadline := time.Now().Add(20 * time.Second)
		for {
			done := false
			for _, e := range boot.Take() {
				if e.Kind == "listenererror" {
					done = true
				}
			}
			if done {
				break
			}
			if time.Now().After(deadline) {
				shErr = fmt.Errorf("agentfx: listener goroutine did not report within 20s")
				return
			}
			time.Sleep(time.Millisecond)
		}
		shared = &Endpoint{H: h}
	})
	if shErr != nil {
		return nil, shErr
	}
	shared.H.Teamserver = rec
	return shared, nil
}

// Serve posts body to the endpoint as if it came from remote and returns status and body.
func (e *Endpoint) Serve(body []byte) (int, []byte) {
	req := httptest.NewRequest(http.MethodPost, "/", bytes.NewReader(body))
	req.RemoteAddr = "10.9.8.7:40000"
	w := httptest.NewRecorder()
	e.H.GinEngine.ServeHTTP(w, req)
	return w.Code, w.Body.Bytes()
}

// Session is the Demon-side view of one registered agent.
type Session struct {
	ID  uint32
	Key []byte
	IV  []byte
	A   *agent.Agent // the teamserver's object, looked up through the recorder
}

// KeyFor derives a fixed non-zero key / iv pair from the agent id.
func KeyFor(id uint32) ([]byte, []byte) {
	key := make([]byte, 32)
	iv := make([]byte, 16)
	for i := range key {
		key[i] = byte(uint32(i)*7 + id*13 + 1)
	}
	for i := range iv {
		iv[i] = byte(uint32(i)*11 + id*3 + 5)
	}
	return key, iv
}

// Meta returns plausible registration metadata for id.
func Meta(id uint32) demonref.MetaData {
	return demonref.MetaData{
		AgentID: id, Hostname: "HOST", Username: "user", Domain: "DOM", InternalIP: "10.0.0.5",
		ProcessPath: "C:\\Windows\\System32\\rundll32.exe", PID: 4242, TID: 77, PPID: 4,
		ProcessArch: 2, Elevated: 0, BaseAddress: 0x7ff600000000,
		OSMajor: 10, OSMinor: 0, OSProduct: 1, OSServicePck: 0, OSBuild: 19045, OSArch: 9,
		Sleep: 2, Jitter: 10, KillDate: 0, WorkingHours: 0,
	}
}

// Register sends the DEMON_INIT package of agent id and returns its session.
func (e *Endpoint) Register(rec *tsx.Recorder, id uint32) (*Session, error) {
	key, iv := KeyFor(id)
	code, _ := e.Serve(Meta(id).InitPackage(id, key, iv))
	if code != 200 {
		return nil, fmt.Errorf("registration of %08x answered %d", id, code)
	}
	a := rec.AgentInstance(int(id))
	if a == nil {
		return nil, fmt.Errorf("registration of %08x left no session", id)
	}
	return &Session{ID: id, Key: key, IV: iv, A: a}, nil
}

// CheckIn sends one request: the GET_JOB header (askJobs) or a header that does not ask
// for jobs, followed by the callbacks subs; returns the decoded tasks of the reply.
func (e *Endpoint) CheckIn(s *Session, askJobs bool, subs []demonref.Sub) (int, []demonref.Task, bool) {
	var pkt []byte
	if askJobs {
		pkt = demonref.Batch(s.ID, 0, subs, s.Key, s.IV)
	} else {
		// same framing, but the leading (command, request id) pair is not GET_JOB: the
		// teamserver treats it as a callback with an empty body (COMMAND_NOJOB is no
		// callback kind, so it has no handler) and the request does not ask for jobs.
		// Every non-GET_JOB pair is followed by a length-prefixed body (handlers.go reads
		// ParseBytes after it), so the leading pair carries an empty one.
		enc := demonref.Header(demonref.Magic, s.ID, demonref.CmdNoJob, 0xffffff00)
		enc.Bytes(nil)
		for _, sb := range subs {
			enc.Int32(sb.Cmd).Int32(sb.ReqID).Bytes(sb.Body)
		}
		pkt = demonref.Finish(enc.B)
		copy(pkt[20:], demonref.XCrypt(pkt[20:], s.Key, s.IV))
	}
	code, resp := e.Serve(pkt)
	if code != 200 {
		return code, nil, false
	}
	tasks, ok := demonref.ReadTasks(resp, s.Key, s.IV, 0, "")
	return code, tasks, ok
}

// IsNoJob reports whether a decoded reply is the single COMMAND_NOJOB answer.
func IsNoJob(t []demonref.Task) bool {
	return len(t) == 1 && t[0].Cmd == demonref.CmdNoJob && len(t[0].Raw) == 0
}

// Bits draws n fair bits (rapid.Bool is an unbiased coin, whereas IntRange and
// SampledFrom strongly favour small values / early elements, which makes "rare" classes
// placed first anything but rare).
func Bits(t *rapid.T, label string, n int) int {
	v := 0
	for i := 0; i < n; i++ {
		v <<= 1
		if rapid.Bool().Draw(t, label) {
			v |= 1
		}
	}
	return v
}

// Weighted picks an index with probability proportional to weights (resolution 1/1024).
// All-false bits (what shrinking converges to) select index 0.
func Weighted(t *rapid.T, label string, weights ...int) int {
	total := 0
	for _, w := range weights {
		total += w
	}
	x := Bits(t, label, 10) * total / 1024
	for i, w := range weights {
		if x < w {
			return i
		}
		x -= w
	}
	return len(weights) - 1
}

// Package pvx is the fixture shared by the pivot-graph (C09) and persistence (C10)
// checks: a real server.Teamserver on a private sqlite file (tsx.NewTS, no Start()),
// an External-C2 handler object to push registrations through the real
// parseAgentRequest/handleDemonAgent path, the Demon-side encodings of the pivot
// callbacks (payloads/Demon/src/core/Command.c CommandPivot, Pivot.c PivotPush), the
// operator's mark-dead/alive package, and an independent database/sql reader for the
// three tables.
package pvx

import (
	"bytes"
	"database/sql"
	"fmt"
	"net/http"
	"net/http/httptest"
	"os"
	"path/filepath"
	"runtime"
	"sort"
	"sync"
	"strconv"
	"strings"
	"syscall"

	"Havoc/cmd/server"
	"Havoc/pkg/agent"
	"Havoc/pkg/common/parser"
	"Havoc/pkg/db"
	"Havoc/pkg/handlers"
	"Havoc/pkg/packager"

	"github.com/gin-gonic/gin"

	"verifharness/internal/demonref"
	"verifharness/internal/tsx"
)

func init() { gin.SetMode(gin.ReleaseMode) }

// ------------------------------------------------------------------ scratch space

// ScratchBase prefers a RAM-backed directory: every teamserver operation is one or
// more sqlite transactions with fsync, ~4 ms each on the disk behind /tmp and ~70 us
// on tmpfs.  Durability against power loss is not part of either property (process
// kill only), so the file system under the database is irrelevant to the oracle.
func ScratchBase() string {
	if b := os.Getenv("VERIF_SCRATCH"); b != "" {
		return b
	}
	if st, err := os.Stat("/dev/shm"); err == nil && st.IsDir() {
		probe, err := os.MkdirTemp("/dev/shm", "verif-probe-")
		if err == nil {
			os.Remove(probe)
			return "/dev/shm"
		}
	}
	return os.TempDir()
}

// MkScratch creates <base>/verif-<tag>-<pid>-XXXX.
func MkScratch(tag string) (string, error) {
	return os.MkdirTemp(ScratchBase(), fmt.Sprintf("verif-%s-%d-", tag, os.Getpid()))
}

// SweepStale removes scratch dirs of this tag whose creating process no longer exists
// (left behind when a test binary was killed).  Called once per process.
func SweepStale(tag string) {
	base := ScratchBase()
	ents, err := os.ReadDir(base)
	if err != nil {
		return
	}
	pre := "verif-" + tag + "-"
	for _, e := range ents {
		n := e.Name()
		if !strings.HasPrefix(n, pre) {
			continue
		}
		rest := strings.SplitN(n[len(pre):], "-", 2)
		pid, err := strconv.Atoi(rest[0])
		if err != nil || pid == os.Getpid() {
			continue
		}
		if err := syscall.Kill(pid, 0); err == syscall.ESRCH {
			os.RemoveAll(filepath.Join(base, n))
		}
	}
}

// CloseDB closes the sqlite handle inside a Havoc db.DB (shared helper tsx.CloseDB).
func CloseDB(d *db.DB) { tsx.CloseDB(d) }

// ------------------------------------------------------------------ world

type World struct {
	Dir string
	TS  *server.Teamserver
	Ext *handlers.External // not registered as a listener: only its Request method is used
	SQL *sql.DB            // independent connection for reading the tables
	own bool               // Dir was created by NewWorld
	Reopened bool          // Reopen() was used: only the sessions active at that time are in memory
	cfg *conf              // optional configuration (config.go); nil = the fixture as it always was
}

// NewWorld creates a scratch dir with a fresh database.  With existed=true the file
// is created first and then opened a second time, which is the state of every start of
// a teamserver except the very first (db.DB.Existed() changes the duplicate handling of
// AgentAdd/LinkAdd/ListenerAdd).
func NewWorld(tag string, existed bool) (*World, error) {
	dir, err := MkScratch(tag)
	if err != nil {
		return nil, err
	}
	if existed {
		os.MkdirAll(filepath.Join(dir, "data"), 0o755)
		d0, err := db.DatabaseNew(tsx.DBPath(dir))
		if err != nil {
			os.RemoveAll(dir)
			return nil, err
		}
		CloseDB(d0)
	}
	w, err := OpenWorld(dir)
	if err != nil {
		os.RemoveAll(dir)
		return nil, err
	}
	w.own = true
	return w, nil
}

// OpenWorld builds a teamserver object on dir (creating the database if missing).
func OpenWorld(dir string) (*World, error) {
	ts, err := tsx.NewTS(dir, nil)
	if err != nil {
		return nil, err
	}
	w := &World{Dir: dir, TS: ts}
	w.Ext = handlers.NewExternal((*gin.Engine)(nil), handlers.ExternalConfig{Name: "pvx-ext", Endpoint: "pvx"})
	w.Ext.Teamserver = ts
	w.SQL, err = sql.Open("sqlite3", tsx.DBPath(dir))
	if err != nil {
		CloseDB(ts.DB)
		return nil, err
	}
	return w, nil
}

func (w *World) Close() {
	w.closeConf()
	if w.SQL != nil {
		w.SQL.Close()
	}
	tsx.CloseTS(w.TS)
	if w.own {
		os.RemoveAll(w.Dir)
	}
}

// Post sends body through handlers.(*External).Request, i.e. parseAgentRequest ->
// handleDemonAgent with the real Teamserver, and returns the HTTP status and reply.
func (w *World) Post(body []byte) (int, []byte) {
	rr := httptest.NewRecorder()
	ctx, _ := gin.CreateTestContext(rr)
	req := httptest.NewRequest(http.MethodPost, "/pvx", bytes.NewReader(body))
	req.RemoteAddr = "10.9.8.7:40001"
	ctx.Request = req
	w.Ext.Request(ctx)
	return rr.Code, rr.Body.Bytes()
}

// Register sends the DEMON_INIT package of a top-level agent.  ok reports whether the
// teamserver answered with the agent id encrypted under the session key (the
// acknowledgement the Demon waits for, Demon.c / TransportInit).
func (w *World) Register(id uint32, key, iv []byte, m demonref.MetaData) (ok bool) {
	m.AgentID = id
	_, reply := w.Post(m.InitPackage(id, key, iv))
	if len(reply) < 4 {
		return false
	}
	plain := demonref.XCrypt(reply, key, iv)
	return len(plain) >= 4 && uint32(plain[0])|uint32(plain[1])<<8|uint32(plain[2])<<16|uint32(plain[3])<<24 == id
}

// Agent returns the first session object with that id.
func (w *World) Agent(id uint32) *agent.Agent {
	n := fmt.Sprintf("%08x", id)
	for _, a := range w.TS.Agents.Agents {
		if a != nil && a.NameID == n {
			return a
		}
	}
	return nil
}

// Callback delivers one callback of agent a exactly as handleDemonAgent / the
// SMB_COMMAND branch do after unwrapping: a.TaskDispatch(req, cmd, parser(body), ts).
func (w *World) Callback(a *agent.Agent, req, cmd uint32, body []byte) {
	a.TaskDispatch(req, cmd, parser.NewParser(append([]byte(nil), body...)), w.TS)
}

// Demon command numbers used here (payloads/Demon/include/core/Command.h; the same
// values as teamserver/pkg/agent/commands.go).
const (
	CmdSleep    = 11
	CmdExit     = 92
	CmdKillDate = 93
	CmdCheckin  = 100
	CmdConfig   = 2500
	CmdPivot    = 2520

	PivotSmbConnect    = 10
	PivotSmbDisconnect = 11

	ConfigKillDate     = 154
	ConfigWorkingHours = 155
)

// ConnectBody: Command.c:2496-2531 — [SMB_CONNECT][TRUE][bytes: what the child wrote
// to the pipe = its complete DEMON_INIT package].
func ConnectBody(childInit []byte) []byte {
	e := &demonref.Enc{}
	return e.Int32(PivotSmbConnect).Int32(1).Bytes(childInit).B
}

// ConnectFailBody: Command.c:2532-2537 — [SMB_CONNECT][FALSE][GetLastError].
func ConnectFailBody(code uint32) []byte {
	e := &demonref.Enc{}
	return e.Int32(PivotSmbConnect).Int32(0).Int32(code).B
}

// DisconnectBody: Command.c:2542-2552 and Pivot.c:307-311 — [SMB_DISCONNECT][Removed][DemonID].
func DisconnectBody(removed bool, id uint32) []byte {
	e := &demonref.Enc{}
	r := uint32(0)
	if removed {
		r = 1
	}
	return e.Int32(PivotSmbDisconnect).Int32(r).Int32(id).B
}

// ExitBody: Command.c CommandExit — [ExitMethod].
func ExitBody(method uint32) []byte { return (&demonref.Enc{}).Int32(method).B }

// SleepBody: Command.c CommandSleep — [delay][jitter].
func SleepBody(delay, jitter uint32) []byte { return (&demonref.Enc{}).Int32(delay).Int32(jitter).B }

// ConfigKillDateBody / ConfigWorkingHoursBody: Command.c:2056-2074 — [config id][value].
func ConfigKillDateBody(v uint64) []byte {
	return (&demonref.Enc{}).Int32(ConfigKillDate).Int64(v).B
}
func ConfigWorkingHoursBody(v uint32) []byte {
	return (&demonref.Enc{}).Int32(ConfigWorkingHours).Int32(v).B
}

// Outstanding makes req an outstanding request id of a the way an operator command
// does (TaskPrepare -> AddJobToQueue): needed for every callback except COMMAND_PIVOT.
func Outstanding(a *agent.Agent, req, cmd uint32) {
	a.AddJobToQueue(agent.Job{Command: cmd, RequestID: req, Data: []interface{}{}})
}

// Mark dispatches the operator's Session/MarkAsDead package (cmd/server/dispatch.go:27-42;
// the client sends {"AgentID": <name id>, "Marked": "Dead"|"Alive"}).
func (w *World) Mark(nameID, marked string) { w.markAs("op", nameID, marked) }

func (w *World) markAs(user, nameID, marked string) {
	var pk packager.Package
	pk.Head.Event = packager.Type.Session.Type
	pk.Head.User = user
	pk.Head.Time = "01/01/2026 00:00:00"
	pk.Body.SubEvent = packager.Type.Session.MarkAsDead
	pk.Body.Info = map[string]interface{}{"AgentID": nameID, "Marked": marked}
	w.TS.DispatchEvent(pk)
}

// ------------------------------------------------------------------ table readers

type LinkRow struct{ Parent, Child int64 }

// LinkRows returns TS_Links verbatim (duplicates included), sorted.
func LinkRows(q *sql.DB) ([]LinkRow, error) {
	rows, err := q.Query(`SELECT ParentAgentID, LinkAgentID FROM TS_Links ORDER BY ParentAgentID, LinkAgentID`)
	if err != nil {
		return nil, err
	}
	defer rows.Close()
	var out []LinkRow
	for rows.Next() {
		var r LinkRow
		if err := rows.Scan(&r.Parent, &r.Child); err != nil {
			return nil, err
		}
		out = append(out, r)
	}
	return out, rows.Err()
}

// ------------------------------------------------------------------ pre-existing database files

// GoldenPath is a database file holding only the schema, created ONCE by the unchanged
// tree's db.DatabaseNew (see golden_test.go) and committed: it stands for the file of a
// deployed teamserver that a later build opens (db.Existed() == true, no migration).
func GoldenPath() string {
	_, file, _, _ := runtime.Caller(0)
	return filepath.Join(filepath.Dir(file), "..", "..", "testdata", "golden-schema.db")
}

// NewWorldMode: mode "fresh" (file created by this teamserver object), "existed" (created by
// the current code, then opened again), "golden" (a copy of the committed file is opened).
// The mode actually used is returned (golden falls back to existed when the file is missing).
func NewWorldMode(tag, mode string) (*World, string, error) {
	if mode == "golden" {
		b, err := os.ReadFile(GoldenPath())
		if err != nil {
			mode = "existed"
		} else {
			dir, err := MkScratch(tag)
			if err != nil {
				return nil, mode, err
			}
			os.MkdirAll(filepath.Join(dir, "data"), 0o755)
			if err := os.WriteFile(tsx.DBPath(dir), b, 0o644); err != nil {
				os.RemoveAll(dir)
				return nil, mode, err
			}
			w, err := OpenWorld(dir)
			if err != nil {
				os.RemoveAll(dir)
				return nil, mode, err
			}
			w.own = true
			return w, mode, nil
		}
	}
	w, err := NewWorld(tag, mode == "existed")
	if mode != "existed" {
		mode = "fresh"
	}
	return w, mode, err
}

// Schema returns table name -> CREATE statement.
func Schema(q *sql.DB) (map[string]string, error) {
	rows, err := q.Query(`SELECT name, sql FROM sqlite_master WHERE type = 'table' ORDER BY name`)
	if err != nil {
		return nil, err
	}
	defer rows.Close()
	out := map[string]string{}
	for rows.Next() {
		var n, s string
		if err := rows.Scan(&n, &s); err != nil {
			return nil, err
		}
		out[n] = s
	}
	return out, rows.Err()
}

var (
	schemaOnce sync.Once
	schemaDiff []string
)

// SchemaDiff lists the tables whose definition in the golden file differs from the one a
// freshly created database gets from the code under test (computed once per process).
// A difference alone is not a finding: it only explains why a history may behave
// differently on an existing file.
func SchemaDiff() []string {
	schemaOnce.Do(func() {
		g, err := sql.Open("sqlite3", "file:"+GoldenPath()+"?mode=ro")
		if err != nil {
			return
		}
		defer g.Close()
		gs, err := Schema(g)
		if err != nil {
			return
		}
		w, err := NewWorld("schema", false)
		if err != nil {
			return
		}
		defer w.Close()
		fs, err := Schema(w.SQL)
		if err != nil {
			return
		}
		seen := map[string]bool{}
		for n, s := range gs {
			seen[n] = true
			if fs[n] != s {
				schemaDiff = append(schemaDiff, n)
			}
		}
		for n := range fs {
			if !seen[n] {
				schemaDiff = append(schemaDiff, n)
			}
		}
		sort.Strings(schemaDiff)
	})
	return schemaDiff
}

// Reopen abandons the running teamserver object and builds a new one on the same file,
// restoring sessions and links the way (*Teamserver).Start() does (teamserver.go: DB.AgentAll,
// AgentAdd for each, then ParentOf / LinksOf; transcribed, Start() itself needs sockets).
// From here on db.Existed() is true whatever created the file.
func (w *World) Reopen() error {
	w.closeTaps() // the operators of the abandoned teamserver (optional configuration)
	if w.SQL != nil {
		w.SQL.Close()
	}
	tsx.CloseTS(w.TS)
	nw, err := OpenWorld(w.Dir)
	if err != nil {
		return err
	}
	w.TS, w.Ext, w.SQL = nw.TS, nw.Ext, nw.SQL
	w.Reopened = true
	if err := w.applyConf(); err != nil { // Start() sets up WebHooks / Service before the sessions are restored
		return err
	}
	ts := w.TS
	agents := ts.DB.AgentAll()
	for _, a := range agents {
		ts.AgentAdd(a)
	}
	for _, a := range agents {
		if pid, err := ts.ParentOf(a); err == nil {
			a.Pivots.Parent = ts.AgentInstance(pid)
		}
		for _, id := range ts.LinksOf(a) {
			if l := ts.AgentInstance(id); l != nil {
				a.Pivots.Links = append(a.Pivots.Links, l)
			}
		}
	}
	return nil
}

func openRO(p string) (*sql.DB, error) { return sql.Open("sqlite3", "file:"+p+"?mode=ro") }

// WrapTS builds a World around a teamserver that was started elsewhere (the real Start()
// in a child process) on dir.
func WrapTS(dir string, ts *server.Teamserver) (*World, error) {
	w := &World{Dir: dir, TS: ts}
	w.Ext = handlers.NewExternal((*gin.Engine)(nil), handlers.ExternalConfig{Name: "pvx-ext", Endpoint: "pvx"})
	w.Ext.Teamserver = ts
	var err error
	w.SQL, err = sql.Open("sqlite3", tsx.DBPath(dir))
	return w, err
}

package pvx

// Optional configuration of a World (wave 14): the parts of a profile and of the
// environment that (*Teamserver).Start() turns into state of the teamserver object and that
// the paths of C09 / C10 read.  A World built through NewWorld / NewWorldMode / OpenWorld
// without Configure behaves exactly as before (WebHooks nil, no Service, one user, no
// operator connected).

import (
	"fmt"
	"io"
	"net/http"
	"net/http/httptest"
	"strings"
	"sync"
	"sync/atomic"
	"time"

	"Havoc/cmd/server"
	"Havoc/pkg/profile"
	"Havoc/pkg/service"
	"Havoc/pkg/webhook"

	"github.com/gin-gonic/gin"
	"github.com/gorilla/websocket"

	"verifharness/internal/tsx"
)

// Options: the zero value is the fixture as it always was.
type Options struct {
	// WebHook: "" = Teamserver.WebHooks stays nil (the object as tsx.NewTS leaves it, no Start());
	// "none" = the empty object Start() always creates, no WebHook block in the profile;
	// "204" / "200" / "500" = WebHook { Discord { Url } } naming a local server of this World that
	// answers so (200 and 500 with a body); "closed" = the Url of a local server that was closed.
	WebHook string `json:"webhook,omitempty"`
	// Operators: users in the Operators block (0 = the fixture's single user "op").
	Operators int `json:"operators,omitempty"`
	// Connected: authenticated operators on a real websocket (they receive every broadcast and
	// discard it); connected again after every Reopen.
	Connected int `json:"connected,omitempty"`
	// Service: "" = no Service block; "block" = Service { Endpoint, Password } as Start() sets it up
	// (route on a private gin engine, nobody connected); "type" = the same with one registered
	// third-party agent type (ServiceMagic).
	Service string `json:"service,omitempty"`
}

// ServiceMagic is the magic value of the third-party agent type of Options.Service == "type".
const ServiceMagic = 0x41424344

type conf struct {
	opts    Options
	hook    *httptest.Server
	hookURL string
	hits    int64
	taps    []*drain
}

// Configure applies o to the teamserver object of w the way Start() does (teamserver.go:
// WebHooks = NewWebHook(), SetDiscord from the profile block, Service from the Service
// block) and keeps it: every Reopen applies it to the new object before the sessions are
// restored.  Call it once, right after the World was created.
func (w *World) Configure(o Options) error {
	c := &conf{opts: o}
	switch o.WebHook {
	case "204", "200", "500":
		code := map[string]int{"204": 204, "200": 200, "500": 500}[o.WebHook]
		c.hook = httptest.NewServer(http.HandlerFunc(func(rw http.ResponseWriter, r *http.Request) {
			io.Copy(io.Discard, r.Body)
			atomic.AddInt64(&c.hits, 1)
			rw.WriteHeader(code)
			if code != 204 {
				rw.Write([]byte(`{"message": "answer of the local webhook endpoint"}`))
			}
		}))
		c.hookURL = c.hook.URL + "/api/webhooks/1/token"
	case "closed":
		s := httptest.NewServer(http.NotFoundHandler())
		c.hookURL = s.URL + "/api/webhooks/1/token"
		s.Close()
	}
	w.cfg = c
	return w.applyConf()
}

// HookHits: requests the webhook endpoint of this World has received.
func (w *World) HookHits() int64 {
	if w.cfg == nil {
		return 0
	}
	return atomic.LoadInt64(&w.cfg.hits)
}

// Users: the operator names of the profile in use.
func (w *World) Users() []string {
	n := 1
	if w.cfg != nil && w.cfg.opts.Operators > 1 {
		n = w.cfg.opts.Operators
	}
	out := []string{"op"}
	for i := 1; i < n; i++ {
		out = append(out, fmt.Sprintf("op%d", i))
	}
	return out
}

func (w *World) applyConf() error {
	c := w.cfg
	if c == nil {
		return nil
	}
	ts := w.TS
	users := map[string]string{}
	for _, u := range w.Users() {
		users[u] = "pw"
	}
	var svc *profile.ServiceConfig
	if c.opts.Service != "" {
		svc = &profile.ServiceConfig{Endpoint: "service-endpoint", Password: "service-password"}
	}
	prof := tsx.BasicProfile(users, svc)
	if c.hookURL != "" {
		prof.Config.WebHook = &profile.WebHookConfig{Discord: &profile.WebHookDiscordConfig{WebHook: c.hookURL, UserName: "Havoc", AvatarUrl: ""}}
	}
	ts.Profile = prof

	// Start(): t.WebHooks = webhook.NewWebHook(); SetDiscord when the block names a Url
	if c.opts.WebHook != "" {
		ts.WebHooks = webhook.NewWebHook()
		if prof.Config.WebHook != nil && prof.Config.WebHook.Discord != nil && len(prof.Config.WebHook.Discord.WebHook) > 0 {
			ts.WebHooks.SetDiscord(prof.Config.WebHook.Discord.AvatarUrl, prof.Config.WebHook.Discord.UserName, prof.Config.WebHook.Discord.WebHook)
		}
	}
	// Start(): the Service block
	if svc != nil {
		ts.Service = service.NewService(gin.New())
		ts.Service.Teamserver = ts
		ts.Service.Data.ServerAgents = &ts.Agents
		ts.Service.Config = *svc
		ts.Service.Start()
		if c.opts.Service == "type" {
			reg := fmt.Sprintf(`{"Name":"Thirdparty","MagicValue":"0x%x","Author":"verif","SupportedOS":["Linux"],"Description":"registered third-party type","Commands":[],"BuildingConfig":{}}`, ServiceMagic)
			if a := service.NewAgentService([]byte(reg), nil); a != nil {
				ts.Service.Agents = append(ts.Service.Agents, a)
			}
		}
	}
	// operators on a websocket
	w.closeTaps()
	for i := 0; i < c.opts.Connected; i++ {
		us := w.Users()
		d, err := newDrain(ts, fmt.Sprintf("verif-operator-%d", i), us[i%len(us)])
		if err != nil {
			return err
		}
		c.taps = append(c.taps, d)
	}
	return nil
}

func (w *World) closeTaps() {
	if w.cfg == nil {
		return
	}
	for _, d := range w.cfg.taps {
		d.close()
	}
	w.cfg.taps = nil
}

func (w *World) closeConf() {
	if w.cfg == nil {
		return
	}
	w.closeTaps()
	if w.cfg.hook != nil {
		w.cfg.hook.CloseClientConnections()
		w.cfg.hook.Close()
		w.cfg.hook = nil
	}
}

// MarkAs is Mark with the operator's name in the package head.
func (w *World) MarkAs(user, nameID, marked string) {
	w.markAs(user, nameID, marked)
}

// drain is one authenticated operator on a real websocket that reads and discards what the
// teamserver sends (SendEvent writes to client.Connection).
type drain struct {
	id   string
	ts   *server.Teamserver
	srv  *httptest.Server
	peer *websocket.Conn
	conn *websocket.Conn
	wg   sync.WaitGroup
}

func newDrain(ts *server.Teamserver, id, user string) (*drain, error) {
	d := &drain{id: id, ts: ts}
	accepted := make(chan *websocket.Conn, 1)
	up := websocket.Upgrader{}
	d.srv = httptest.NewServer(http.HandlerFunc(func(rw http.ResponseWriter, r *http.Request) {
		if c, err := up.Upgrade(rw, r, nil); err == nil {
			accepted <- c
		}
	}))
	peer, _, err := websocket.DefaultDialer.Dial("ws"+strings.TrimPrefix(d.srv.URL, "http"), nil)
	if err != nil {
		d.srv.Close()
		return nil, err
	}
	d.peer = peer
	select {
	case d.conn = <-accepted:
	case <-time.After(20 * time.Second):
		peer.Close()
		d.srv.Close()
		return nil, fmt.Errorf("operator websocket not accepted")
	}
	d.wg.Add(1)
	go func() {
		defer d.wg.Done()
		for {
			if _, _, err := peer.ReadMessage(); err != nil {
				return
			}
		}
	}()
	ts.Clients.Store(id, &server.Client{ClientID: id, Username: user, Connection: d.conn, Authenticated: true})
	return d, nil
}

func (d *drain) close() {
	d.ts.Clients.Delete(d.id)
	d.peer.Close()
	d.conn.Close()
	d.wg.Wait()
	d.srv.Close()
}

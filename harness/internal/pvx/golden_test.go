package pvx

import (
	"fmt"
	"os"
	"path/filepath"
	"sort"
	"strings"
	"testing"

	"Havoc/pkg/db"
)

// TestWriteGolden (only with VERIF_WRITE_GOLDEN=1) creates testdata/golden-schema.db with the
// db.DatabaseNew of the tree it is built against, plus a text dump of its schema.  It was
// run once against the unchanged tree; the two files are committed and must not be
// regenerated from a modified tree.
func TestWriteGolden(t *testing.T) {
	if os.Getenv("VERIF_WRITE_GOLDEN") != "1" {
		t.Skip("VERIF_WRITE_GOLDEN not set")
	}
	p := GoldenPath()
	os.MkdirAll(filepath.Dir(p), 0o755)
	os.Remove(p)
	d, err := db.DatabaseNew(p)
	if err != nil {
		t.Fatal(err)
	}
	CloseDB(d)
	w := &World{}
	_ = w
	q, err := openRO(p)
	if err != nil {
		t.Fatal(err)
	}
	defer q.Close()
	s, err := Schema(q)
	if err != nil {
		t.Fatal(err)
	}
	var names []string
	for n := range s {
		names = append(names, n)
	}
	sort.Strings(names)
	var sb strings.Builder
	for _, n := range names {
		fmt.Fprintf(&sb, "%s;\n", strings.TrimSuffix(s[n], ";"))
	}
	if err := os.WriteFile(strings.TrimSuffix(p, ".db")+".sql", []byte(sb.String()), 0o644); err != nil {
		t.Fatal(err)
	}
}

// TestGoldenReadable: the committed file opens and has the three tables.
func TestGoldenReadable(t *testing.T) {
	q, err := openRO(GoldenPath())
	if err != nil {
		t.Skip(err)
	}
	defer q.Close()
	s, err := Schema(q)
	if err != nil {
		t.Skip(err)
	}
	for _, n := range []string{"TS_Agents", "TS_Links", "TS_Listeners"} {
		if s[n] == "" {
			t.Fatalf("golden file has no table %s", n)
		}
	}
}

// Package pick lets a check that collects several violations in one case report the
// first one that is not an open known finding, so that a known finding met early in a
// case does not hide what the remaining assertions of the same case show
// (core.Run only sees one violation per case).
package pick

import (
	"encoding/json"
	"os"
	"strings"
	"sync"

	"verifharness/internal/core"
)

var (
	mu    sync.Mutex
	cache = map[string]map[string]bool{}
)

// Known returns the signatures of the open known findings of prop (from $VERIF_KNOWN,
// the same file core.Run matches against).
func Known(prop string) map[string]bool {
	mu.Lock()
	defer mu.Unlock()
	if m, ok := cache[prop]; ok {
		return m
	}
	m := map[string]bool{}
	cache[prop] = m
	b, err := os.ReadFile(os.Getenv("VERIF_KNOWN"))
	if err != nil {
		return m
	}
	for _, ln := range strings.Split(string(b), "\n") {
		var k struct{ Property, Signature, Status string }
		if json.Unmarshal([]byte(strings.TrimSpace(ln)), &k) == nil && k.Property == prop && k.Status == "open" {
			m[k.Signature] = true
		}
	}
	return m
}

// First returns the first violation whose signature is not an open known finding of
// prop; when all are known, the first one; nil for an empty list.
func First(prop string, vs []*core.Violation) *core.Violation {
	if len(vs) == 0 {
		return nil
	}
	known := Known(prop)
	for _, v := range vs {
		if !known[v.Sig] {
			return v
		}
	}
	return vs[0]
}

// Package svcx is the fixture of C16: a real server.Teamserver (private sqlite file,
// no Start()) whose gin engine - with the third-party Service websocket route
// registered by the real (*service.Service).Start() - is served on a loopback
// listener, a small third-party "service script" client that speaks the service
// protocol over a real gorilla websocket, and the synchronisation helpers the check
// needs to observe the server only when its goroutines are at rest.
package svcx

import (
	"encoding/base64"
	"encoding/json"
	"fmt"
	"net"
	"net/http"
	"os"
	"runtime"
	"strconv"
	"strings"
	"sync"
	"time"

	"Havoc/cmd/server"
	"Havoc/pkg/handlers"
	"Havoc/pkg/packager"
	"Havoc/pkg/profile"
	"Havoc/pkg/service"

	"github.com/gin-gonic/gin"
	"github.com/gorilla/websocket"

	"verifharness/internal/tsx"
)

func init() { gin.SetMode(gin.ReleaseMode) }

// Bound is the generous upper bound of every wait.  Reaching it is never reported as a
// violation of the property by itself: callers turn it into an "inconclusive" error.
const Bound = 30 * time.Second

const (
	SvcEndpoint = "svc"
	SvcPassword = "pw"
	// OpExt is an External-C2 listener the fixture starts through ListenerStart before the
	// case begins ("registered by somebody else"); its name also serves Barrier().
	OpExt = "op-ext"
)

type Fixture struct {
	Dir  string
	TS   *server.Teamserver
	Addr string // host:port of the served engine

	ln  net.Listener
	srv *http.Server

	mu      sync.Mutex
	clients []*Client
}

// New builds the teamserver the way (*Teamserver).Start() does for the parts C16 needs
// (teamserver.go:75-76 engine, :193-207 service block), and serves the engine.
func New(withService bool) (*Fixture, error) {
	dir, err := os.MkdirTemp(scratchBase(), "c16-")
	if err != nil {
		return nil, err
	}
	var sc *profile.ServiceConfig
	if withService {
		sc = &profile.ServiceConfig{Endpoint: SvcEndpoint, Password: SvcPassword}
	}
	prof := tsx.BasicProfile(map[string]string{"op": "pw"}, sc)
	ts, err := tsx.NewTS(dir, prof)
	if err != nil {
		os.RemoveAll(dir)
		return nil, err
	}
	ts.Server.Engine = gin.New()
	if sc != nil {
		ts.Service = service.NewService(ts.Server.Engine)
		ts.Service.Teamserver = ts
		ts.Service.Data.ServerAgents = &ts.Agents
		ts.Service.Config = *sc
		ts.Service.Start()
	}
	ln, err := listenLoopback()
	if err != nil {
		tsx.CloseTS(ts)
		os.RemoveAll(dir)
		return nil, err
	}
	f := &Fixture{Dir: dir, TS: ts, ln: ln, Addr: ln.Addr().String()}
	f.srv = &http.Server{Handler: ts.Server.Engine}
	go f.srv.Serve(ln)
	return f, nil
}

// Close stops everything the case started: service clients, HTTP listeners (through
// their exported http.Server, not through the 5 s Stop()), the served engine, the
// sqlite handle; then removes the directory.
func (f *Fixture) Close() {
	f.mu.Lock()
	cl := append([]*Client(nil), f.clients...)
	f.mu.Unlock()
	// most recently accepted first, one at a time: the order in which the teamserver's
	// ClientClose is known to cope with (cleanup must not be what kills the process)
	for i := len(cl) - 1; i >= 0; i-- {
		if cl[i].Closed() {
			continue
		}
		n := CountGoroutines(HandleConnFrame)
		cl[i].Drop()
		WaitGoroutines(HandleConnFrame, n-1)
	}
	Quiesce()
	// one at a time: the serving goroutine of a closed listener reports the "error" through
	// EventListenerError, which appends to the event list without any lock
	for _, l := range f.TS.Listeners {
		if h, ok := l.Config.(*handlers.HTTP); ok && h.Server != nil {
			h.Server.Close()
			Quiesce()
		}
	}
	f.srv.Close()
	Quiesce()
	tsx.CloseTS(f.TS)
	os.RemoveAll(f.Dir)
}

// scratchBase prefers a memory-backed directory (same rule as agx.ScratchBase: sqlite
// fsyncs dominate the per-case cost on disk); "" means the default temp dir.
func scratchBase() string {
	if st, err := os.Stat("/dev/shm"); err == nil && st.IsDir() {
		return "/dev/shm"
	}
	return ""
}

// Operator feeds one operator package to the teamserver exactly as handleRequest does
// after authentication (teamserver.go:618-622): JSON -> CreatePackage, stamp the time,
// EventAppend, DispatchEvent.  info values are strings, as the client sends them.
func (f *Fixture) Operator(user string, event, sub int, info map[string]string) {
	m := map[string]any{}
	for k, v := range info {
		m[k] = v
	}
	raw, _ := json.Marshal(map[string]any{
		"Head": map[string]any{"Event": event, "User": user, "Time": "01/01/2026 00:00:00", "OneTime": ""},
		"Body": map[string]any{"SubEvent": sub, "Info": m},
	})
	pk := packager.NewPackager().CreatePackage(string(raw))
	pk.Head.Time = time.Now().Format("02/01/2006 15:04:05")
	f.TS.EventAppend(pk)
	f.TS.DispatchEvent(pk)
}

// ---------------------------------------------------------------------------- quiescence

// parked lists the goroutine states that mean "waiting for something from outside":
// network input or a channel.  Mutex / semaphore / sleep states are transient (e.g. a
// listener goroutine briefly waits on a runtime semaphore inside net.InterfaceByName
// before it binds) and count as busy.
var parked = map[string]bool{
	"IO wait": true, "chan receive": true, "select": true,
	"chan receive (nil chan)": true, "select (no cases)": true,
}

// Goroutines returns the stack dump of all goroutines, one string per goroutine.
func Goroutines() []string {
	n := 1 << 18
	for {
		buf := make([]byte, n)
		m := runtime.Stack(buf, true)
		if m < n {
			return strings.Split(strings.TrimSpace(string(buf[:m])), "\n\n")
		}
		n *= 2
	}
}

func state(g string) string {
	i, j := strings.Index(g, "["), strings.Index(g, "]")
	if i < 0 || j < i {
		return ""
	}
	s := g[i+1 : j]
	if k := strings.Index(s, ","); k >= 0 {
		s = s[:k]
	}
	return s
}

// busy reports the first goroutine that has a Havoc frame (or was created by Havoc code)
// and is not parked in a blocking operation.
// LastDump is the goroutine dump the most recent busy() call judged (diagnostics only).
var LastDump []string

func busy() string {
	gs := Goroutines()
	LastDump = gs
	for i, g := range gs {
		// the first block is the calling goroutine (it may itself be unwinding a panic that
		// came out of teamserver code, with fixture cleanup running in a deferred call)
		if i == 0 || !strings.Contains(g, "Havoc/") {
			continue
		}
		if !parked[state(g)] {
			return g
		}
	}
	return ""
}

// Quiesce waits until every goroutine running teamserver code is parked (blocked in
// accept/read/channel): the state is then safe to read without racing a writer.  It is
// a synchronisation device, not an oracle; it returns false only after Bound.
func Quiesce() bool {
	dl := time.Now().Add(Bound)
	for {
		if busy() == "" {
			return true
		}
		if time.Now().After(dl) {
			if os.Getenv("VERIF_SVCX_DEBUG") != "" {
				fmt.Fprintf(os.Stderr, "svcx.Quiesce gave up; busy goroutine:\n%s\n", busy())
			}
			return false
		}
		time.Sleep(200 * time.Microsecond)
	}
}

// CountGoroutines counts goroutines whose stack mentions frame.
func CountGoroutines(frame string) int {
	n := 0
	for _, g := range Goroutines() {
		if strings.Contains(g, frame) {
			n++
		}
	}
	return n
}

// WaitGoroutines waits until exactly want goroutines mention frame (and the rest is quiet).
func WaitGoroutines(frame string, want int) bool {
	dl := time.Now().Add(Bound)
	for {
		if CountGoroutines(frame) == want && busy() == "" {
			return true
		}
		if time.Now().After(dl) {
			return false
		}
		time.Sleep(300 * time.Microsecond)
	}
}

// ---------------------------------------------------------------------------- sockets

// FreePort asks the kernel for a currently unused loopback port.  Another process may
// take it before it is used: callers observe the outcome instead of assuming it.
func FreePort() (string, error) {
	l, err := listenLoopback()
	if err != nil {
		return "", err
	}
	defer l.Close()
	_, p, _ := net.SplitHostPort(l.Addr().String())
	return p, nil
}

// listenLoopback listens on a kernel-chosen loopback port.  With SO_REUSEADDR (Go sets
// it on every listener) two processes can be handed the same port by bind(0) and the
// slower one fails in listen() with EADDRINUSE; that is retried.
func listenLoopback() (net.Listener, error) {
	var err error
	for i := 0; i < 50; i++ {
		var l net.Listener
		if l, err = net.Listen("tcp", "127.0.0.1:0"); err == nil {
			return l, nil
		}
	}
	return nil, err
}

// ListenLoopback is listenLoopback for the checks (a port held by the harness).
func ListenLoopback() (net.Listener, error) { return listenLoopback() }

// OwnListenPorts returns the TCP ports THIS process holds a listening socket on.
func OwnListenPorts() map[string]bool {
	byInode := map[string]string{}
	for _, fn := range []string{"/proc/self/net/tcp", "/proc/self/net/tcp6"} {
		b, err := os.ReadFile(fn)
		if err != nil {
			continue
		}
		for _, ln := range strings.Split(string(b), "\n")[1:] {
			fs := strings.Fields(ln)
			if len(fs) < 10 || fs[3] != "0A" {
				continue
			}
			i := strings.LastIndex(fs[1], ":")
			if i < 0 {
				continue
			}
			if p, err := strconv.ParseInt(fs[1][i+1:], 16, 32); err == nil {
				byInode[fs[9]] = strconv.Itoa(int(p))
			}
		}
	}
	out := map[string]bool{}
	ents, err := os.ReadDir("/proc/self/fd")
	if err != nil {
		return out
	}
	for _, e := range ents {
		t, err := os.Readlink("/proc/self/fd/" + e.Name())
		if err != nil || !strings.HasPrefix(t, "socket:[") {
			continue
		}
		if p, ok := byInode[strings.TrimSuffix(strings.TrimPrefix(t, "socket:["), "]")]; ok {
			out[p] = true
		}
	}
	return out
}

// OwnListening reports whether THIS process holds a listening TCP socket on port.
func OwnListening(port string) bool {
	pn, err := strconv.Atoi(port)
	if err != nil {
		return false
	}
	inodes := map[string]bool{}
	for _, fn := range []string{"/proc/self/net/tcp", "/proc/self/net/tcp6"} {
		b, err := os.ReadFile(fn)
		if err != nil {
			continue
		}
		for _, ln := range strings.Split(string(b), "\n")[1:] {
			fs := strings.Fields(ln)
			if len(fs) < 10 || fs[3] != "0A" {
				continue
			}
			i := strings.LastIndex(fs[1], ":")
			if i < 0 {
				continue
			}
			p, err := strconv.ParseInt(fs[1][i+1:], 16, 32)
			if err != nil || int(p) != pn {
				continue
			}
			inodes[fs[9]] = true
		}
	}
	if len(inodes) == 0 {
		return false
	}
	ents, err := os.ReadDir("/proc/self/fd")
	if err != nil {
		return true // cannot tell: be conservative towards the caller's own observation
	}
	for _, e := range ents {
		t, err := os.Readlink("/proc/self/fd/" + e.Name())
		if err != nil {
			continue
		}
		if strings.HasPrefix(t, "socket:[") && inodes[strings.TrimSuffix(strings.TrimPrefix(t, "socket:["), "]")] {
			return true
		}
	}
	return false
}

// Refuses reports whether a TCP connect to 127.0.0.1:port is refused.
func Refuses(port string) bool {
	c, err := net.DialTimeout("tcp", "127.0.0.1:"+port, 2*time.Second)
	if err != nil {
		return true
	}
	c.Close()
	return false
}

// ---------------------------------------------------------------------------- service client

// Msg is one message received from the teamserver on a service connection.
type Msg map[string]map[string]any

// Client plays a third-party service script (havoc-py shape) on a real websocket.
type Client struct {
	ID  int
	Tag string // prefix of every relayed agent response, identifies the answering connection

	// ListenerReply decides how a "ListenerStart" request is answered: "ok", "error", "silent".
	ListenerReply string

	f    *Fixture
	conn *websocket.Conn
	wmu  sync.Mutex

	mu     sync.Mutex
	recv   []Msg
	closed bool
	seq    int
	done   chan struct{}
}

// Connect dials the service endpoint and authenticates (service.go authenticate()).
func (f *Fixture) Connect(id int) (*Client, error) {
	d := websocket.Dialer{HandshakeTimeout: Bound}
	conn, _, err := d.Dial("ws://"+f.Addr+"/"+SvcEndpoint, nil)
	if err != nil {
		return nil, err
	}
	c := &Client{ID: id, Tag: fmt.Sprintf("conn%d", id), ListenerReply: "ok", f: f, conn: conn, done: make(chan struct{})}
	if err := conn.WriteJSON(map[string]any{"Head": map[string]any{"Type": "Register"}, "Body": map[string]any{"Password": SvcPassword}}); err != nil {
		conn.Close()
		return nil, err
	}
	var resp Msg
	conn.SetReadDeadline(time.Now().Add(Bound))
	if err := conn.ReadJSON(&resp); err != nil {
		conn.Close()
		return nil, err
	}
	conn.SetReadDeadline(time.Time{})
	if ok, _ := resp["Body"]["Success"].(bool); !ok {
		conn.Close()
		return nil, fmt.Errorf("service authentication refused")
	}
	f.mu.Lock()
	f.clients = append(f.clients, c)
	f.mu.Unlock()
	go c.reader()
	return c, nil
}

func (c *Client) send(v any) error {
	c.wmu.Lock()
	defer c.wmu.Unlock()
	return c.conn.WriteJSON(v)
}

func (c *Client) reader() {
	defer close(c.done)
	for {
		_, data, err := c.conn.ReadMessage()
		if err != nil {
			return
		}
		var m Msg
		if json.Unmarshal(data, &m) != nil {
			continue
		}
		c.mu.Lock()
		c.recv = append(c.recv, m)
		c.mu.Unlock()
		ht, _ := m["Head"]["Type"].(string)
		bt, _ := m["Body"]["Type"].(string)
		switch {
		case ht == "Agent" && bt == "AgentResponse":
			// agent.go SendResponse: relay of an agent request; answer with Tag|<request bytes>
			rid, _ := m["Body"]["RandID"].(string)
			req, _ := m["Body"]["Response"].(string)
			raw, _ := base64.StdEncoding.DecodeString(req)
			out := append([]byte(c.Tag+"|"), raw...)
			c.send(map[string]any{"Head": map[string]any{"Type": "Agent"}, "Body": map[string]any{
				"Type": "AgentResponse", "RandID": rid, "Response": base64.StdEncoding.EncodeToString(out)}})
		case ht == "Listener" && bt == "ListenerStart":
			info, _ := m["Body"]["Listener"].(map[string]any)
			name, _ := info["Name"].(string)
			proto, _ := info["Protocol"].(string)
			if c.ListenerReply == "silent" {
				break
			}
			l := map[string]any{"Name": name, "Protocol": proto, "Host": "127.0.0.1", "PortBind": "4444", "Error": "", "Status": "Online", "Info": "{}"}
			if c.ListenerReply == "error" {
				l["Status"], l["Error"] = "Offline", "could not bind"
			}
			c.send(map[string]any{"Head": map[string]any{"Type": "Listener"}, "Body": map[string]any{"Type": "ListenerStart", "Listener": l}})
		}
	}
}

// Received returns a copy of everything received so far.
func (c *Client) Received() []Msg {
	c.mu.Lock()
	defer c.mu.Unlock()
	return append([]Msg(nil), c.recv...)
}

// WaitFor waits until some received message (from index from on) satisfies pred.
func (c *Client) WaitFor(from int, pred func(Msg) bool) (Msg, bool) {
	dl := time.Now().Add(Bound)
	for {
		c.mu.Lock()
		for i := from; i < len(c.recv); i++ {
			if pred(c.recv[i]) {
				m := c.recv[i]
				c.mu.Unlock()
				return m, true
			}
		}
		c.mu.Unlock()
		select {
		case <-c.done:
			return nil, false
		default:
		}
		if time.Now().After(dl) {
			return nil, false
		}
		time.Sleep(200 * time.Microsecond)
	}
}

// RegisterAgent sends a RegisterAgent message shaped as havoc-py's AgentType.get_dict().
func (c *Client) RegisterAgent(name string, magic uint32) error {
	return c.send(map[string]any{"Head": map[string]any{"Type": "RegisterAgent"}, "Body": map[string]any{"Agent": map[string]any{
		"Name": name, "MagicValue": fmt.Sprintf("0x%x", magic), "Author": "verif", "Description": "generated",
		"Formats": []any{map[string]any{"Name": "Exe", "Extension": "exe"}}, "SupportedOS": []any{"linux"},
		"Commands": []any{}, "BuildingConfig": map[string]any{"Sleep": "10"},
	}}})
}

// RegisterListener registers a service-defined listener kind.
func (c *Client) RegisterListener(name, agent string) error {
	return c.send(map[string]any{"Head": map[string]any{"Type": "Listener"}, "Body": map[string]any{"Type": "ListenerAdd", "Listener": map[string]any{
		"Name": name, "Agent": agent, "Items": []any{map[string]any{"object": "input", "name": "Host", "text": "Host", "placeholder": "", "editable": true}},
	}}})
}

func (c *Client) nextID() string {
	c.mu.Lock()
	defer c.mu.Unlock()
	c.seq++
	return fmt.Sprintf("%s-%d", c.Tag, c.seq)
}

// AddExC2 registers an External-C2 listener and returns the teamserver's verdict.
func (c *Client) AddExC2(name, endpoint string) (success bool, errText string, err error) {
	rid := c.nextID()
	from := len(c.Received())
	if err := c.send(map[string]any{"Head": map[string]any{"Type": "Listener", "RequestID": rid}, "Body": map[string]any{"Type": "ListenerAddExC2", "Name": name, "Endpoint": endpoint}}); err != nil {
		return false, "", err
	}
	m, ok := c.WaitFor(from, func(m Msg) bool { r, _ := m["Head"]["RequestID"].(string); return r == rid })
	if !ok {
		return false, "", fmt.Errorf("no reply to ListenerAddExC2 within %v", Bound)
	}
	ex, _ := m["Body"]["ExC2"].(map[string]any)
	s, _ := ex["Success"].(bool)
	e, _ := ex["Error"].(string)
	return s, e, nil
}

// Barrier returns once the teamserver has completely dispatched every message this
// connection sent before: routine() handles one message at a time, and the request sent
// here (an ExC2 registration under the name of the fixture's own listener, which is
// always refused and changes nothing) is answered only after it was dispatched.
func (c *Client) Barrier() error {
	s, _, err := c.AddExC2(OpExt, "barrier")
	if err != nil {
		return err
	}
	if s {
		return fmt.Errorf("barrier registration unexpectedly accepted")
	}
	return nil
}

// Leave closes the connection: cleanly (close frame first) or abruptly (TCP close).
func (c *Client) Leave(abrupt bool) {
	c.mu.Lock()
	if c.closed {
		c.mu.Unlock()
		return
	}
	c.closed = true
	c.mu.Unlock()
	if !abrupt {
		c.wmu.Lock()
		c.conn.WriteControl(websocket.CloseMessage, websocket.FormatCloseMessage(websocket.CloseNormalClosure, ""), time.Now().Add(time.Second))
		c.wmu.Unlock()
	}
	c.conn.Close()
	<-c.done
}

// Closed reports whether Leave was called.
func (c *Client) Closed() bool {
	c.mu.Lock()
	defer c.mu.Unlock()
	return c.closed
}

// HandleConnFrame names the per-connection goroutine of the service endpoint.
const HandleConnFrame = "service.(*Service).handleConnection"

// Drop is Leave for cleanup.
func (c *Client) Drop() { c.Leave(true) }

// ---------------------------------------------------------------------------- known findings

// KnownOpen returns the signatures of the open known findings of prop (VERIF_KNOWN, the
// same file internal/core reads).  C16(c) needs it for one purpose only: a known
// process-killing defect has to be excluded by construction, or every shard would die
// at its first occurrence.
func KnownOpen(prop string) map[string]bool {
	out := map[string]bool{}
	b, err := os.ReadFile(os.Getenv("VERIF_KNOWN"))
	if err != nil {
		return out
	}
	for _, ln := range strings.Split(string(b), "\n") {
		var k struct{ Property, Signature, Status string }
		if json.Unmarshal([]byte(strings.TrimSpace(ln)), &k) == nil && k.Property == prop && k.Status == "open" {
			out[k.Signature] = true
		}
	}
	return out
}

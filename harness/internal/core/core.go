// Package core is the common plumbing of every property check:
// generator -> Case (plain JSON data) -> pure check function -> *Violation.
//
// It owns: replay (VERIF_REPLAY bypasses rapid), the in-flight journal (so a
// process-killing crash can be attributed to the case that caused it), the
// statistics that become /verif/evidence/<id>.json, known-finding matching and
// the violation file the driver turns into the VIOLATION line.
package core

import (
	"crypto/sha1"
	"encoding/hex"
	"encoding/json"
	"fmt"
	"os"
	"path/filepath"
	"runtime"
	"runtime/debug"
	"sort"
	"strings"
	"sync"
	"testing"
	"time"

	"pgregory.net/rapid"
)

// Violation describes one failure of the property.
// Sig names the specific call site / input class / history that fails; it is what
// known_findings.jsonl is matched against, so it must be narrow and stable.
type Violation struct {
	Sig string `json:"sig"`
	Msg string `json:"msg"`
}

func V(sig, format string, a ...interface{}) *Violation {
	return &Violation{Sig: sig, Msg: fmt.Sprintf(format, a...)}
}

// Class is what a check says about one case for the evidence file.
type Class struct {
	NonTrivial  bool
	Fingerprint string   // abstraction of the case; distinct_nontrivial counts distinct values
	Labels      []string // generator classes hit (histogram)
}

type Spec[C any] struct {
	Property string // "C03"
	Sub      string // "a"
	Rule     string // how cases are generated, what is non-trivial / distinct
	Gen      func(t *rapid.T) C
	Check    func(c C) *Violation
	Classify func(c C) Class
	// Assumptions for the evidence file.
	Assumptions []string
}

type knownFinding struct {
	Property  string `json:"property"`
	Signature string `json:"signature"`
	Status    string `json:"status"`
	What      string `json:"what"`
	Commit    string `json:"commit,omitempty"`
}

type Stats struct {
	Property      string            `json:"property"`
	Sub           string            `json:"sub"`
	Rule          string            `json:"rule"`
	Assumptions   []string          `json:"assumptions"`
	Evaluations   int               `json:"evaluations"`
	NonTrivial    int               `json:"nontrivial"`
	Fingerprints  []string          `json:"fingerprints"`
	Labels        map[string]int    `json:"labels"`
	Samples       []json.RawMessage `json:"samples"`
	ExcludedKnown map[string]int    `json:"excluded_known"`
	KnownWhat     map[string]string `json:"known_what"`
	WallS         float64           `json:"wall_s"`
	Violations    int               `json:"violations"`
	Extra         map[string]any    `json:"extra,omitempty"`
}

type violationFile struct {
	Property string          `json:"property"`
	Sub      string          `json:"sub"`
	Sig      string          `json:"sig"`
	Msg      string          `json:"msg"`
	Case     json.RawMessage `json:"case"`
}

var (
	extraMu sync.Mutex
	extra   = map[string]any{}
)

// SetExtra records an additional measured key for the evidence file.
func SetExtra(k string, v any) {
	extraMu.Lock()
	extra[k] = v
	extraMu.Unlock()
}

func loadKnown(prop string) map[string]knownFinding {
	out := map[string]knownFinding{}
	p := os.Getenv("VERIF_KNOWN")
	if p == "" {
		return out
	}
	b, err := os.ReadFile(p)
	if err != nil {
		return out
	}
	for _, ln := range strings.Split(string(b), "\n") {
		ln = strings.TrimSpace(ln)
		if ln == "" || strings.HasPrefix(ln, "#") {
			continue
		}
		var k knownFinding
		if json.Unmarshal([]byte(ln), &k) != nil {
			continue
		}
		if k.Property == prop && k.Status == "open" {
			out[k.Signature] = k
		}
	}
	return out
}

// Guard runs f and converts a panic into a Violation whose signature names the
// innermost Havoc function on the panicking stack.
func Guard(f func() *Violation) (v *Violation) {
	defer func() {
		if r := recover(); r != nil {
			st := string(debug.Stack())
			v = &Violation{Sig: "panic|" + HavocFrame(st) + "|" + panicKind(r), Msg: fmt.Sprintf("panic: %v\n%s", r, trimStack(st))}
		}
	}()
	return f()
}

// panicKind abstracts a panic value into a short stable class (digits and addresses removed).
func panicKind(r interface{}) string {
	s := fmt.Sprint(r)
	var b strings.Builder
	for _, c := range s {
		switch {
		case c >= '0' && c <= '9':
		case c == '[' || c == ']':
		case c == ' ':
			b.WriteByte('-')
		default:
			b.WriteRune(c)
		}
		if b.Len() > 60 {
			break
		}
	}
	return strings.Trim(b.String(), "-")
}

// HavocFrame extracts the innermost function of module Havoc from a stack dump.
func HavocFrame(stack string) string {
	lines := strings.Split(stack, "\n")
	seenPanic := false
	for _, ln := range lines {
		if strings.HasPrefix(ln, "panic(") {
			seenPanic = true
			continue
		}
		if !seenPanic {
			continue
		}
		if strings.HasPrefix(ln, "Havoc/") {
			fn := ln
			if i := strings.LastIndex(fn, "("); i > 0 {
				fn = fn[:i]
			}
			return fn
		}
	}
	// no panic( marker (e.g. goroutine dump): first Havoc frame at all
	for _, ln := range lines {
		if strings.HasPrefix(ln, "Havoc/") {
			fn := ln
			if i := strings.LastIndex(fn, "("); i > 0 {
				fn = fn[:i]
			}
			return fn
		}
	}
	return "unknown"
}

func trimStack(st string) string {
	if len(st) > 6000 {
		return st[:6000] + "\n...[truncated]"
	}
	return st
}

// WithWatchdog runs f in its own goroutine; if it does not return within d the
// result is a "hang" violation carrying a dump of all goroutines.
// d is generous (orders of magnitude above normal cost) and is part of the oracle
// only for properties that speak about termination.
func WithWatchdog(d time.Duration, what string, f func() *Violation) *Violation {
	done := make(chan *Violation, 1)
	gid := make(chan string, 1)
	go func() {
		var b [64]byte
		h := string(b[:runtime.Stack(b[:], false)]) // "goroutine N [running]:..."
		if i := strings.Index(h, " ["); i > 0 {
			h = h[:i]
		}
		gid <- h
		done <- Guard(f)
	}()
	worker := <-gid
	start := time.Now()
	limit := d
	for {
		select {
		case v := <-done:
			return v
		case <-time.After(time.Until(start.Add(limit))):
		}
		buf := make([]byte, 1<<20)
		n := runtime.Stack(buf, true)
		dump := string(buf[:n])
		// A goroutine that is still computing (running / runnable) on a loaded machine is slow, not
		// stuck: it gets up to ten times the allowance before it counts as an endless loop (false
		// alarms seen in a thorough run at load 100: 30 s exceeded by parses that take 2 s).  One that
		// is blocked (lock, channel, I/O) is reported at once, as before.
		if limit < 10*d && workerComputing(dump, worker) {
			limit += d
			continue
		}
		return &Violation{Sig: "hang|" + what + "|" + hangFrame(dump), Msg: fmt.Sprintf("operation %q did not return within %v\n%s", what, time.Since(start).Round(time.Second), trimStack(dump))}
	}
}

// workerComputing: the goroutine that runs the guarded function (worker = "goroutine N") is not
// parked on a lock, channel, timer or I/O.
func workerComputing(dump, worker string) bool {
	for _, g := range strings.Split(dump, "\n\n") {
		if !strings.HasPrefix(g, worker+" [") {
			continue
		}
		head := g
		if i := strings.IndexByte(g, '\n'); i > 0 {
			head = g[:i]
		}
		// blocked = parked for a reason that computing does not have; everything else (running,
		// runnable, preempted, copystack, syscall, GC assist ...) is a goroutine that still works
		for _, w := range []string{"[chan receive", "[chan send", "[select", "[semacquire", "[sync.", "[IO wait", "[sleep", "[finalizer wait", "[waiting"} {
			if strings.Contains(head, w) {
				return false
			}
		}
		return true
	}
	return false
}

// hangFrame finds the innermost Havoc frame of any goroutine that is not parked
// in the harness itself (best effort; used only to name the finding).
func hangFrame(dump string) string {
	for _, g := range strings.Split(dump, "\n\n") {
		if strings.Contains(g, "core.WithWatchdog") && !strings.Contains(g, "core.Guard") {
			continue
		}
		if !strings.Contains(g, "core.Guard") {
			continue
		}
		for _, ln := range strings.Split(g, "\n") {
			if strings.HasPrefix(ln, "Havoc/") {
				fn := ln
				if i := strings.LastIndex(fn, "("); i > 0 {
					fn = fn[:i]
				}
				return fn
			}
		}
	}
	return "unknown"
}

func jsonOf(v any) json.RawMessage {
	b, err := json.Marshal(v)
	if err != nil {
		b, _ = json.Marshal(fmt.Sprintf("%+v", v))
	}
	return b
}

func clip(b json.RawMessage, n int) json.RawMessage {
	if len(b) <= n {
		return b
	}
	s, _ := json.Marshal(string(b[:n]) + "...[clipped]")
	return s
}

// Run is the single entry point used by every property test.
func Run[C any](t *testing.T, s Spec[C]) {
	name := s.Property + s.Sub
	outDir := os.Getenv("VERIF_OUT")
	known := loadKnown(s.Property)

	// ---- replay mode: bypass rapid entirely
	if rp := os.Getenv("VERIF_REPLAY"); rp != "" {
		b, err := os.ReadFile(rp)
		if err != nil {
			t.Fatalf("replay: %v", err)
		}
		var vf violationFile
		var c C
		if json.Unmarshal(b, &vf) == nil && len(vf.Case) > 0 {
			if vf.Sub != "" && vf.Sub != s.Sub {
				t.Skipf("replay is for sub-check %q", vf.Sub)
			}
			b = vf.Case
		}
		if err := json.Unmarshal(b, &c); err != nil {
			t.Fatalf("replay: cannot decode case: %v", err)
		}
		v := Guard(func() *Violation { return s.Check(c) })
		st := &Stats{Property: s.Property, Sub: s.Sub, Rule: s.Rule, Evaluations: 1, Labels: map[string]int{}, ExcludedKnown: map[string]int{}, KnownWhat: map[string]string{}, Samples: []json.RawMessage{clip(jsonOf(c), 4000)}}
		if v != nil {
			if k, ok := known[v.Sig]; ok {
				st.ExcludedKnown[v.Sig]++
				st.KnownWhat[v.Sig] = k.What
				fmt.Printf("KNOWN-FINDING: property=%s %s\n", s.Property, k.What)
			} else {
				st.Violations = 1
				writeViolation(outDir, name, s, c, v)
				writeStats(outDir, name, st)
				t.Fatalf("replayed violation [%s]: %s", v.Sig, v.Msg)
			}
		}
		writeStats(outDir, name, st)
		return
	}

	st := &Stats{Property: s.Property, Sub: s.Sub, Rule: s.Rule, Assumptions: s.Assumptions, Labels: map[string]int{}, ExcludedKnown: map[string]int{}, KnownWhat: map[string]string{}}
	fps := map[string]struct{}{}
	start := time.Now()
	inflight := ""
	if outDir != "" {
		inflight = filepath.Join(outDir, name+".inflight.json")
	}
	var lastFailCase *C
	var lastFail *Violation

	finish := func() {
		st.WallS = time.Since(start).Seconds()
		for f := range fps {
			st.Fingerprints = append(st.Fingerprints, f)
		}
		sort.Strings(st.Fingerprints)
		extraMu.Lock()
		if len(extra) > 0 {
			st.Extra = map[string]any{}
			for k, v := range extra {
				st.Extra[k] = v
			}
		}
		extraMu.Unlock()
		if lastFail != nil {
			st.Violations = 1
			writeViolation(outDir, name, s, *lastFailCase, lastFail)
		}
		writeStats(outDir, name, st)
		if inflight != "" {
			os.Remove(inflight)
		}
	}
	defer finish()

	journalEvery := os.Getenv("VERIF_NOJOURNAL") == ""

	rapid.Check(t, func(rt *rapid.T) {
		c := s.Gen(rt)
		if inflight != "" && journalEvery {
			b := jsonOf(violationFile{Property: s.Property, Sub: s.Sub, Sig: "inflight", Case: jsonOf(c)})
			tmp := inflight + ".tmp"
			if os.WriteFile(tmp, b, 0o644) == nil {
				os.Rename(tmp, inflight)
			}
		}
		v := Guard(func() *Violation { return s.Check(c) })
		st.Evaluations++
		if s.Classify != nil {
			cl := s.Classify(c)
			for _, l := range cl.Labels {
				st.Labels[l]++
			}
			if cl.NonTrivial {
				st.NonTrivial++
				if _, ok := fps[cl.Fingerprint]; !ok {
					fps[cl.Fingerprint] = struct{}{}
					if len(st.Samples) < 5 {
						st.Samples = append(st.Samples, clip(jsonOf(c), 3000))
					}
				}
			}
		}
		if v == nil {
			return
		}
		if k, ok := known[v.Sig]; ok {
			if st.ExcludedKnown[v.Sig] == 0 {
				fmt.Printf("KNOWN-FINDING: property=%s %s\n", s.Property, k.What)
			}
			st.ExcludedKnown[v.Sig]++
			st.KnownWhat[v.Sig] = k.What
			return
		}
		cc := c
		lastFailCase = &cc
		lastFail = v
		rt.Fatalf("violation [%s]: %s", v.Sig, v.Msg)
	})
	if len(st.Samples) == 0 {
		// guarantee at least one written-out case
		st.Samples = append(st.Samples, json.RawMessage(`"no non-trivial case generated"`))
	}
}

func writeStats(dir, name string, st *Stats) {
	if dir == "" {
		return
	}
	b, _ := json.MarshalIndent(st, "", " ")
	os.WriteFile(filepath.Join(dir, name+".stats.json"), b, 0o644)
}

func writeViolation[C any](dir, name string, s Spec[C], c C, v *Violation) {
	vf := violationFile{Property: s.Property, Sub: s.Sub, Sig: v.Sig, Msg: v.Msg, Case: jsonOf(c)}
	b, _ := json.MarshalIndent(vf, "", " ")
	h := sha1.Sum(vf.Case)
	fn := fmt.Sprintf("%s-%s.json", name, hex.EncodeToString(h[:6]))
	rd := os.Getenv("VERIF_REPLAYS")
	if rd == "" {
		rd = dir
	}
	if rd == "" {
		return
	}
	os.MkdirAll(rd, 0o755)
	p := filepath.Join(rd, fn)
	os.WriteFile(p, b, 0o644)
	if dir != "" {
		os.WriteFile(filepath.Join(dir, name+".violation.path"), []byte(p), 0o644)
	}
}

// Tier returns "quick" or "thorough".
func Tier() string {
	if os.Getenv("VERIF_TIER") == "thorough" {
		return "thorough"
	}
	return "quick"
}

package core

import (
	"net"
	"time"
)

// ListenLoopback listens on a kernel-chosen loopback port.  Go sets SO_REUSEADDR on every
// listener, so two processes binding port 0 at the same moment can be handed the same
// port and the slower one fails in listen() with EADDRINUSE.  That says nothing about the
// code under test: it is retried (with a short pause) for a few seconds.
func ListenLoopback(network string) (net.Listener, error) {
	var err error
	for i := 0; i < 400; i++ {
		var l net.Listener
		if l, err = net.Listen(network, "127.0.0.1:0"); err == nil {
			return l, nil
		}
		if i > 20 {
			time.Sleep(10 * time.Millisecond)
		}
	}
	return nil, err
}

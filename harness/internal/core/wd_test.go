package core

import (
	"sync"
	"testing"
	"time"
)

func TestWatchdogBlockedIsReportedAtOnce(t *testing.T) {
	var mu sync.Mutex
	mu.Lock()
	t0 := time.Now()
	v := WithWatchdog(300*time.Millisecond, "blocked", func() *Violation { mu.Lock(); return nil })
	if v == nil || time.Since(t0) > 2*time.Second {
		t.Fatalf("blocked worker: %v after %v", v, time.Since(t0))
	}
}

func TestWatchdogSlowComputationGetsMoreTime(t *testing.T) {
	v := WithWatchdog(200*time.Millisecond, "slow", func() *Violation {
		end := time.Now().Add(700 * time.Millisecond)
		x := 0
		for time.Now().Before(end) {
			x++
		}
		_ = x
		return nil
	})
	if v != nil {
		t.Fatalf("slow computation reported: %s", v.Sig)
	}
}

func TestWatchdogEndlessLoopIsReported(t *testing.T) {
	stop := make(chan struct{})
	defer close(stop)
	t0 := time.Now()
	v := WithWatchdog(100*time.Millisecond, "loop", func() *Violation {
		for {
			select {
			case <-stop:
				return nil
			default:
			}
		}
	})
	if v == nil || time.Since(t0) > 3*time.Second {
		t.Fatalf("endless loop: %v after %v", v, time.Since(t0))
	}
}

// Package wsx is the operator/service websocket fixture shared by C06 and C11:
// the real (*server.Teamserver).Start() running in-process, its gin engine served
// on a harness-owned fault-injecting listener, gorilla websocket clients with a
// frame queue, and a worker-subprocess runner so that a panic in a goroutine
// spawned by Havoc (which no recover can catch) ends only the worker, not the
// exploring process.
package wsx

import (
	"verifharness/internal/core"
	"errors"
	"net"
	"sync"
	"sync/atomic"
	"time"
)

// ErrCut is what a server-side Write returns once the harness has cut the transport.
var ErrCut = errors.New("write: broken pipe (transport cut by the harness)")

// FConn is the server-side end of one accepted connection.  The harness can make
// its writes fail after a byte budget, block them, or close it, and can see how
// many bytes the server wrote and whether the server closed it.
type FConn struct {
	net.Conn
	mu             sync.Mutex
	budget         int64 // <0: unlimited; otherwise bytes still allowed before every write fails
	stall          chan struct{}
	written        atomic.Int64
	closedByServer atomic.Bool
	writeFailed    atomic.Bool
	inWrite        atomic.Int32
	closeOnce      sync.Once
	wdl            time.Time // write deadline (honoured by a stalled write)
	pauseAt        int64     // <0: never; otherwise writes block once this many bytes have been written ...
	gate           chan struct{} // ... until Resume closes this
	paused         atomic.Bool
	cutWrites      int // <0: off; otherwise this many more Write calls go through, then the budget becomes cutExtra
	cutExtra       int64
	pauseWrites    int // 0: off; otherwise the pause mark is set once this many more Write calls have completed
}

type timeoutErr struct{}

func (timeoutErr) Error() string   { return "i/o timeout (write deadline exceeded on a stalled connection)" }
func (timeoutErr) Timeout() bool   { return true }
func (timeoutErr) Temporary() bool { return true }

func (c *FConn) SetWriteDeadline(t time.Time) error {
	c.mu.Lock()
	c.wdl = t
	c.mu.Unlock()
	return c.Conn.SetWriteDeadline(t)
}

func (c *FConn) SetDeadline(t time.Time) error {
	c.mu.Lock()
	c.wdl = t
	c.mu.Unlock()
	return c.Conn.SetDeadline(t)
}

func (c *FConn) Write(p []byte) (int, error) {
	c.inWrite.Add(1)
	defer c.inWrite.Add(-1)
	c.mu.Lock()
	st := c.stall
	dl := c.wdl
	c.mu.Unlock()
	c.mu.Lock()
	gate := c.gate
	hold := gate != nil && c.pauseAt >= 0 && c.written.Load() >= c.pauseAt
	c.mu.Unlock()
	if hold {
		c.paused.Store(true)
		if dl.IsZero() {
			<-gate
		} else {
			t := time.NewTimer(time.Until(dl))
			select {
			case <-gate:
				t.Stop()
			case <-t.C:
				c.writeFailed.Store(true)
				c.paused.Store(false)
				return 0, timeoutErr{}
			}
		}
		c.paused.Store(false)
	}
	if st != nil {
		if dl.IsZero() {
			<-st
		} else {
			t := time.NewTimer(time.Until(dl))
			select {
			case <-st:
				t.Stop()
			case <-t.C:
				c.writeFailed.Store(true)
				return 0, timeoutErr{}
			}
		}
	}
	c.mu.Lock()
	if c.cutWrites >= 0 {
		if c.cutWrites == 0 {
			c.budget = c.cutExtra
			c.cutWrites = -1
		} else {
			c.cutWrites--
		}
	}
	if c.budget >= 0 {
		if int64(len(p)) > c.budget {
			n := c.budget
			c.budget = 0
			c.mu.Unlock()
			c.writeFailed.Store(true)
			if n > 0 {
				m, _ := c.Conn.Write(p[:n])
				c.written.Add(int64(m))
			}
			return int(n), ErrCut
		}
		c.budget -= int64(len(p))
	}
	c.mu.Unlock()
	n, err := c.Conn.Write(p)
	c.written.Add(int64(n))
	if err != nil {
		c.writeFailed.Store(true)
	}
	c.mu.Lock()
	if c.pauseWrites > 0 {
		c.pauseWrites--
		if c.pauseWrites == 0 && c.gate != nil {
			c.pauseAt = c.written.Load()
		}
	}
	c.mu.Unlock()
	return n, err
}

// Close is what the server calls.
func (c *FConn) Close() error {
	c.closedByServer.Store(true)
	return c.kill()
}

func (c *FConn) kill() error {
	var err error
	c.closeOnce.Do(func() {
		c.mu.Lock()
		if c.stall != nil {
			close(c.stall)
			c.stall = nil
		}
		if c.gate != nil {
			close(c.gate)
			c.gate = nil
			c.pauseAt = -1
		}
		c.budget = 0
		c.mu.Unlock()
		err = c.Conn.Close()
	})
	return err
}

// Kill closes the transport from the harness side (both directions).
func (c *FConn) Kill() { c.kill() }

// CutWritesAfter lets n more bytes through and then fails every write; reads keep
// blocking, as with a peer that silently went away.
func (c *FConn) CutWritesAfter(n int) {
	c.mu.Lock()
	c.budget = int64(n)
	c.mu.Unlock()
}

// PauseAfter makes writes block (a reader that has fallen behind) as soon as n more
// bytes have been written, until Resume.  The write that crosses the mark completes.
func (c *FConn) PauseAfter(n int64) {
	c.mu.Lock()
	c.pauseAt = c.written.Load() + n
	if c.gate == nil {
		c.gate = make(chan struct{})
	}
	c.mu.Unlock()
}

// PauseAfterWrites is PauseAfter counted in Write calls instead of bytes: k more calls go
// through, the one after them blocks until Resume (the teamserver's events are far smaller
// than gorilla's write buffer, so one call is one websocket message; k = 0 blocks the next).
func (c *FConn) PauseAfterWrites(k int) {
	c.mu.Lock()
	if c.gate == nil {
		c.gate = make(chan struct{})
	}
	if k <= 0 {
		c.pauseAt = c.written.Load()
		c.pauseWrites = 0
	} else {
		c.pauseAt = -1
		c.pauseWrites = k
	}
	c.mu.Unlock()
}

// Paused: a write of the server is blocked at the pause mark right now.
func (c *FConn) Paused() bool { return c.paused.Load() }

func (c *FConn) Resume() {
	c.mu.Lock()
	if c.gate != nil {
		close(c.gate)
		c.gate = nil
	}
	c.pauseAt = -1
	c.pauseWrites = 0
	c.mu.Unlock()
}

// CutAfterWrites lets k more Write calls through (the teamserver's events are far smaller
// than gorilla's write buffer, so one call is one websocket message), then extra bytes of
// the following one, and fails every write after that.
func (c *FConn) CutAfterWrites(k int, extra int) {
	c.mu.Lock()
	c.cutWrites = k
	c.cutExtra = int64(extra)
	c.mu.Unlock()
}

// Stall makes every later write block until the connection is killed.
func (c *FConn) Stall() {
	c.mu.Lock()
	if c.stall == nil {
		c.stall = make(chan struct{})
	}
	c.mu.Unlock()
}

func (c *FConn) Written() int64       { return c.written.Load() }
func (c *FConn) ClosedByServer() bool { return c.closedByServer.Load() }
func (c *FConn) WriteFailed() bool    { return c.writeFailed.Load() }
func (c *FConn) InWrite() bool        { return c.inWrite.Load() > 0 }

// FListener hands out FConns and remembers them by peer address.
type FListener struct {
	net.Listener
	mu    sync.Mutex
	conns map[string]*FConn
}

func NewFListener() (*FListener, error) {
	l, err := core.ListenLoopback("tcp4")
	if err != nil {
		return nil, err
	}
	return &FListener{Listener: l, conns: map[string]*FConn{}}, nil
}

func (l *FListener) Accept() (net.Conn, error) {
	c, err := l.Listener.Accept()
	if err != nil {
		return nil, err
	}
	if tc, ok := c.(*net.TCPConn); ok {
		tc.SetNoDelay(true)
	}
	fc := &FConn{Conn: c, budget: -1, pauseAt: -1, cutWrites: -1}
	l.mu.Lock()
	l.conns[c.RemoteAddr().String()] = fc
	l.mu.Unlock()
	return fc, nil
}

// Peer returns the server-side connection whose remote address is addr.
func (l *FListener) Peer(addr string) *FConn {
	l.mu.Lock()
	defer l.mu.Unlock()
	return l.conns[addr]
}

// KillAll closes every connection accepted so far and forgets them.
func (l *FListener) KillAll() {
	l.mu.Lock()
	cs := l.conns
	l.conns = map[string]*FConn{}
	l.mu.Unlock()
	for _, c := range cs {
		c.Kill()
	}
}

func (l *FListener) Port() int { return l.Listener.Addr().(*net.TCPAddr).Port }

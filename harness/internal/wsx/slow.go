package wsx

// Optional pieces for an operator that is alive but SLOW (used by C11(f)): a client whose
// socket has a small receive buffer and whose reads follow a schedule, reaching the
// teamserver through a one-connection listener of its own whose accepted socket has a
// small send buffer and MEASURES how long the teamserver was kept waiting by every single
// frame.  Nothing here changes the behaviour of the existing functions.

import (
	"fmt"
	"net"
	"net/http"
	"sync"
	"sync/atomic"
	"syscall"
	"time"

	"github.com/gorilla/websocket"

	"verifharness/internal/core"
)

// PacedConn is the client-side transport of a slow operator.  Plan is asked after every
// Read (with the number of raw bytes consumed so far) how many more bytes may be taken
// before the next pause and how long that pause is; the next Read sleeps that long first.
// Off() ends the pacing (the reader then takes whatever is there at full speed).
type PacedConn struct {
	net.Conn
	Plan func(consumed int64) (allow int64, pause time.Duration)

	off      atomic.Bool
	consumed atomic.Int64
	mu       sync.Mutex
	allow    int64
	pending  time.Duration
	started  bool
	pauses   int
	slept    time.Duration
	maxSleep time.Duration
	wake     chan struct{}
}

func (p *PacedConn) Read(b []byte) (int, error) {
	if p.Plan != nil && !p.off.Load() {
		p.mu.Lock()
		if !p.started {
			p.started = true
			p.allow, p.pending = p.Plan(0)
		}
		d := time.Duration(0)
		if p.allow <= 0 {
			d = p.pending
			p.allow, p.pending = p.Plan(p.consumed.Load())
			if p.allow <= 0 {
				p.allow = 1
			}
		}
		allow := p.allow
		wake := p.wake
		p.mu.Unlock()
		if d > 0 {
			t0 := time.Now()
			t := time.NewTimer(d)
			select {
			case <-t.C:
			case <-wake:
				t.Stop()
			}
			el := time.Since(t0)
			p.mu.Lock()
			p.pauses++
			p.slept += el
			if el > p.maxSleep {
				p.maxSleep = el
			}
			p.mu.Unlock()
		}
		if int64(len(b)) > allow {
			b = b[:allow]
		}
	}
	n, err := p.Conn.Read(b)
	if n > 0 {
		p.consumed.Add(int64(n))
		p.mu.Lock()
		p.allow -= int64(n)
		p.mu.Unlock()
	}
	return n, err
}

// Off ends the pacing and cuts a pause in progress short.
func (p *PacedConn) Off() {
	if p.off.CompareAndSwap(false, true) {
		close(p.wake)
	}
}

// Consumed: raw bytes the websocket layer has taken from the socket so far.
func (p *PacedConn) Consumed() int64 { return p.consumed.Load() }

// Pauses: how many pauses were made, their sum, and the longest one as it really turned out.
func (p *PacedConn) Pauses() (n int, sum, longest time.Duration) {
	p.mu.Lock()
	defer p.mu.Unlock()
	return p.pauses, p.slept, p.maxSleep
}

// MConn is the server-side end of a measured connection: an FConn (all its fault injection
// and counters keep working) that notes when the teamserver arms a write deadline - which it
// does once per frame, right before writing it - and when each Write returns.  The time a
// frame was kept waiting is the time from that moment to the return of the frame's last
// Write; that is exactly the quantity a per-frame write timeout limits.
type MConn struct {
	*FConn
	mmu        sync.Mutex
	frameStart time.Time
	armed      int
	first      time.Time
	last       time.Time
	worst      time.Duration
	failedAt   time.Time
}

func (m *MConn) SetWriteDeadline(t time.Time) error {
	m.mmu.Lock()
	m.frameStart = time.Now()
	m.armed++
	m.mmu.Unlock()
	return m.FConn.SetWriteDeadline(t)
}

func (m *MConn) Write(p []byte) (int, error) {
	t0 := time.Now()
	m.mmu.Lock()
	fs := m.frameStart
	if m.first.IsZero() {
		m.first = t0
	}
	m.mmu.Unlock()
	if fs.IsZero() {
		fs = t0 // (no deadline armed yet: the HTTP answer of the upgrade)
	}
	n, err := m.FConn.Write(p)
	t1 := time.Now()
	m.mmu.Lock()
	if d := t1.Sub(fs); d > m.worst {
		m.worst = d
	}
	m.last = t1
	if err != nil && m.failedAt.IsZero() {
		m.failedAt = t1
	}
	m.mmu.Unlock()
	return n, err
}

// Waits: the longest time any single frame (complete or failed) was kept waiting, how many
// times a write deadline was armed, and the time from the first Write to the return of the
// latest one.
func (m *MConn) Waits() (worst time.Duration, armed int, span time.Duration, failed bool) {
	m.mmu.Lock()
	defer m.mmu.Unlock()
	return m.worst, m.armed, m.last.Sub(m.first), !m.failedAt.IsZero()
}

type mListener struct {
	net.Listener
	f      *Fixture
	sndBuf int
	mu     sync.Mutex
	got    []*MConn
}

func (l *mListener) Accept() (net.Conn, error) {
	c, err := l.Listener.Accept()
	if err != nil {
		return nil, err
	}
	if tc, ok := c.(*net.TCPConn); ok {
		tc.SetNoDelay(true)
		if l.sndBuf > 0 {
			tc.SetWriteBuffer(l.sndBuf)
		}
	}
	fc := &FConn{Conn: c, budget: -1, pauseAt: -1, cutWrites: -1}
	// known to the fixture's listener like any other accepted connection (Peer, KillAll)
	l.f.L.mu.Lock()
	l.f.L.conns[c.RemoteAddr().String()] = fc
	l.f.L.mu.Unlock()
	mc := &MConn{FConn: fc}
	l.mu.Lock()
	l.got = append(l.got, mc)
	l.mu.Unlock()
	return mc, nil
}

// DialPaced is Dial for a slow operator: the teamserver's engine is served on a listener
// that exists for this one connection; the client's socket gets a receive buffer of rcvBuf
// bytes before the TCP handshake (so that the advertised window is small from the first
// segment on), the accepted socket a send buffer of sndBuf bytes (0 = leave alone), and
// the client's reads follow plan (nil = full speed).  The returned MConn is the measuring
// server-side end; Client.Peer is its FConn.
func (f *Fixture) DialPaced(path string, rcvBuf, sndBuf int, plan func(consumed int64) (int64, time.Duration)) (*Client, *PacedConn, *MConn, error) {
	tl, err := core.ListenLoopback("tcp4")
	if err != nil {
		return nil, nil, nil, err
	}
	ml := &mListener{Listener: tl, f: f, sndBuf: sndBuf}
	served := make(chan struct{})
	go func() { http.Serve(ml, f.TS.Server.Engine); close(served) }()
	defer func() { tl.Close(); <-served }()

	var pc *PacedConn
	d := websocket.Dialer{HandshakeTimeout: 60 * time.Second, ReadBufferSize: 4096, WriteBufferSize: 8192,
		NetDial: func(network, addr string) (net.Conn, error) {
			nd := net.Dialer{Timeout: 60 * time.Second}
			if rcvBuf > 0 {
				nd.Control = func(network, address string, rc syscall.RawConn) error {
					var serr error
					if err := rc.Control(func(fd uintptr) {
						serr = syscall.SetsockoptInt(int(fd), syscall.SOL_SOCKET, syscall.SO_RCVBUF, rcvBuf)
					}); err != nil {
						return err
					}
					return serr
				}
			}
			c, err := nd.Dial(network, addr)
			if err != nil {
				return nil, err
			}
			pc = &PacedConn{Conn: c, Plan: plan, wake: make(chan struct{})}
			return pc, nil
		}}
	ws, _, err := d.Dial(fmt.Sprintf("ws://127.0.0.1:%d%s", tl.Addr().(*net.TCPAddr).Port, path), nil)
	if err != nil {
		return nil, nil, nil, err
	}
	c := &Client{Conn: ws, Local: ws.LocalAddr().String(), frames: make(chan Frame, 1<<15), done: make(chan struct{})}
	var mc *MConn
	ml.mu.Lock()
	for _, m := range ml.got {
		if m.RemoteAddr().String() == c.Local {
			mc = m
		}
	}
	ml.mu.Unlock()
	if mc == nil {
		ws.Close()
		return nil, nil, nil, fmt.Errorf("no server-side connection for %s", c.Local)
	}
	c.Peer = mc.FConn
	f.clients = append(f.clients, c)
	go func() {
		defer close(c.done)
		for {
			t, d, err := ws.ReadMessage()
			if err != nil {
				c.ReadErr = err
				return
			}
			c.frames <- Frame{t, d}
		}
	}()
	return c, pc, mc, nil
}

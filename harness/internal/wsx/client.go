package wsx

import (
	"bytes"
	"crypto/tls"
	"encoding/base64"
	"encoding/json"
	"fmt"
	"io"
	"strings"
	"sync"
	"time"

	"github.com/gorilla/websocket"

	"Havoc/pkg/packager"
)

type Frame struct {
	Type int
	Data []byte
}

// Client is a gorilla websocket client whose reader goroutine queues every message.
type Client struct {
	Conn    *websocket.Conn
	Local   string // our address = the server's view of the peer
	Peer    *FConn // server-side end
	frames  chan Frame
	done    chan struct{}
	ReadErr error
	wmu     sync.Mutex
	aborted sync.Once
}

var dialer = websocket.Dialer{HandshakeTimeout: 60 * time.Second, ReadBufferSize: 8192, WriteBufferSize: 8192}

// Dial connects to path ("/havoc/" or "/"+SvcEndpoint) on the harness listener.
func (f *Fixture) Dial(path string) (*Client, error) {
	ws, _, err := dialer.Dial(f.Base+path, nil)
	if err != nil {
		return nil, err
	}
	c := &Client{Conn: ws, Local: ws.LocalAddr().String(), frames: make(chan Frame, 1<<15), done: make(chan struct{})}
	c.Peer = f.L.Peer(c.Local)
	if c.Peer == nil {
		ws.Close()
		return nil, fmt.Errorf("no server-side connection for %s", c.Local)
	}
	f.clients = append(f.clients, c)
	go func() {
		defer close(c.done)
		for {
			t, d, err := ws.ReadMessage()
			if err != nil {
				c.ReadErr = err
				return
			}
			c.frames <- Frame{t, d}
		}
	}()
	return c, nil
}

// DialTLS connects through the teamserver's own TLS listener (certificate not
// verified).  No fault injection and no server-side view (Peer is nil), but the
// handler goroutines are then created by the teamserver's own accept loop, exactly as
// in production - which matters under the race detector: Start()'s certificate
// goroutine and the connection handlers share a variable, ordered only by that
// goroutine-creation edge.  Waits (bounded) for the listener to come up.
func (f *Fixture) DialTLS(path string) (*Client, error) {
	d := websocket.Dialer{HandshakeTimeout: 60 * time.Second, TLSClientConfig: &tls.Config{InsecureSkipVerify: true}}
	var ws *websocket.Conn
	var err error
	deadline := time.Now().Add(120 * time.Second)
	for {
		ws, _, err = d.Dial(f.TLSBase+path, nil)
		if err == nil || time.Now().After(deadline) {
			break
		}
		time.Sleep(5 * time.Millisecond)
	}
	if err != nil {
		return nil, err
	}
	c := &Client{Conn: ws, Local: ws.LocalAddr().String(), frames: make(chan Frame, 1<<15), done: make(chan struct{})}
	f.clients = append(f.clients, c)
	go func() {
		defer close(c.done)
		for {
			t, d, err := ws.ReadMessage()
			if err != nil {
				c.ReadErr = err
				return
			}
			c.frames <- Frame{t, d}
		}
	}()
	return c, nil
}

func (c *Client) Send(typ int, data []byte) error {
	c.wmu.Lock()
	defer c.wmu.Unlock()
	return c.Conn.WriteMessage(typ, data)
}

func (c *Client) SendJSON(v any) error {
	b, err := json.Marshal(v)
	if err != nil {
		return err
	}
	return c.Send(websocket.BinaryMessage, b)
}

// Next waits for the next message.  closed is true when the reader has ended and the
// queue is empty.
func (c *Client) Next(d time.Duration) (fr Frame, ok bool, closed bool) {
	select {
	case fr = <-c.frames:
		return fr, true, false
	default:
	}
	t := time.NewTimer(d)
	defer t.Stop()
	select {
	case fr = <-c.frames:
		return fr, true, false
	case <-c.done:
		select {
		case fr = <-c.frames:
			return fr, true, false
		default:
		}
		return Frame{}, false, true
	case <-t.C:
		return Frame{}, false, false
	}
}

// Pending returns what is queued right now without waiting.
func (c *Client) Pending() []Frame {
	var out []Frame
	for {
		select {
		case fr := <-c.frames:
			out = append(out, fr)
		default:
			return out
		}
	}
}

// Abort closes our TCP end abruptly (the server sees an abnormal closure).
func (c *Client) Abort() {
	c.aborted.Do(func() { c.Conn.UnderlyingConn().Close() })
}

// CloseGracefully sends a close frame first.
func (c *Client) CloseGracefully() {
	c.wmu.Lock()
	c.Conn.WriteControl(websocket.CloseMessage, websocket.FormatCloseMessage(websocket.CloseNormalClosure, ""), time.Now().Add(5*time.Second))
	c.wmu.Unlock()
	c.Abort()
}

// Join waits for the reader goroutine (the transport must have been closed).
func (c *Client) Join() { <-c.done }

// Drain: after the server-side end was killed, everything the server had written
// is delivered before the reader sees EOF; returns all of it.
func (c *Client) Drain() []Frame {
	<-c.done
	return c.Pending()
}

// ---------------------------------------------------------------- packages

// Decode demands that a websocket message is exactly one JSON document of the shape
// of packager.Package ({"Head":{..},"Body":{..}}), nothing before or after it.
func Decode(fr Frame) (packager.Package, error) {
	var pk packager.Package
	dec := json.NewDecoder(bytes.NewReader(fr.Data))
	var raw map[string]json.RawMessage
	if err := dec.Decode(&raw); err != nil {
		return pk, fmt.Errorf("not a JSON object: %v", err)
	}
	var extra json.RawMessage
	if err := dec.Decode(&extra); err != io.EOF {
		return pk, fmt.Errorf("more than one JSON value in one message")
	}
	if _, ok := raw["Head"]; !ok {
		return pk, fmt.Errorf("no Head")
	}
	if _, ok := raw["Body"]; !ok {
		return pk, fmt.Errorf("no Body")
	}
	if len(raw) != 2 {
		return pk, fmt.Errorf("unexpected top-level keys")
	}
	if err := json.Unmarshal(fr.Data, &pk); err != nil {
		return pk, err
	}
	return pk, nil
}

func str(m map[string]any, k string) string {
	if v, ok := m[k]; ok {
		if s, ok := v.(string); ok {
			return s
		}
		return fmt.Sprintf("%v", v)
	}
	return ""
}

// Proj maps a package to the identity the models compare on (times are dropped).
func Proj(pk packager.Package) string {
	T := packager.Type
	in := pk.Body.Info
	ot := ""
	if pk.Head.OneTime == "true" {
		ot = "!"
	}
	switch pk.Head.Event {
	case T.InitConnection.Type:
		switch pk.Body.SubEvent {
		case T.InitConnection.Success:
			return "init/success"
		case T.InitConnection.Error:
			return "init/error"
		case T.InitConnection.Profile:
			return "init/profile"
		}
	case T.Chat.Type:
		switch pk.Body.SubEvent {
		case T.Chat.NewUser:
			return ot + "newuser/" + str(in, "User")
		case T.Chat.UserDisconnected:
			return ot + "userdisc/" + str(in, "User")
		case T.Chat.NewMessage:
			txt, _ := base64.StdEncoding.DecodeString(str(in, pk.Head.User))
			return ot + "chat/" + pk.Head.User + "/" + string(txt)
		}
	case T.Session.Type:
		switch pk.Body.SubEvent {
		case T.Session.NewSession:
			key := ""
			if e, ok := in["Encryption"].(map[string]any); ok {
				key = str(e, "AESKey")
			}
			return ot + "newsession/" + str(in, "NameID") + "/" + key
		case T.Session.Output:
			out, _ := base64.StdEncoding.DecodeString(str(in, "Output"))
			var m map[string]string
			tok := string(out)
			if json.Unmarshal(out, &m) == nil {
				tok = m["Message"]
			}
			return ot + "out/" + str(in, "DemonID") + "/" + tok
		case T.Session.MarkAsDead:
			return ot + "mark/" + pk.Head.User + "/" + str(in, "AgentID") + "/" + str(in, "Marked")
		}
	case T.Listener.Type:
		switch pk.Body.SubEvent {
		case T.Listener.Add:
			return ot + "ladd/" + pk.Head.User + "/" + str(in, "Name") + "/" + str(in, "Status")
		case T.Listener.Remove:
			return ot + "lrem/" + pk.Head.User + "/" + str(in, "Name")
		case T.Listener.Error:
			return ot + "lerr/" + str(in, "Name") + "/" + strings.TrimSpace(str(in, "Error"))
		}
	case T.Teamserver.Type:
		return ot + "tslog/" + str(in, "Text")
	case T.Service.Type:
		return ot + fmt.Sprintf("service/%d", pk.Body.SubEvent)
	}
	return ot + fmt.Sprintf("other/%d/%d", pk.Head.Event, pk.Body.SubEvent)
}

package wsx

// Optional pieces for FAULTS ON THE TRANSPORT OF ONE CONNECTION (used by C06 a/b/c, wave 15):
//
//   - XConn, a server-side end that is an FConn (all its write faults and counters keep
//     working) and additionally (1) keeps a transcript of every byte the teamserver wrote to
//     the connection - so that what an unauthenticated peer "received" can be judged exactly
//     even when the peer reset the connection and never read it, (2) can make the teamserver's
//     READS fail after n more bytes (a connection that breaks in the middle of a frame), and
//     (3) can hold back what the peer sent until the harness releases it (network delay: the
//     peer's segment and its RST have both arrived by the time the teamserver gets to look);
//   - DialX, a dial that reaches the teamserver through a one-connection listener handing out
//     such an XConn (the same arrangement as DialPaced);
//   - a raw sender: hand-built masked client frames (also frames that announce more bytes than
//     are sent), written to the socket in ONE write, and a reset (SO_LINGER 0) of the client
//     end;
//   - a parser for the server-to-client byte stream.
//
// Nothing here changes the behaviour of the existing functions.

import (
	"bytes"
	"encoding/binary"
	"errors"
	"fmt"
	"io"
	"net"
	"net/http"
	"sync"
	"sync/atomic"
	"syscall"
	"time"

	"github.com/gorilla/websocket"

	"verifharness/internal/core"
)

// ErrReadReset / ErrReadEOF are what a server-side Read returns once the harness has broken
// the receiving direction: the text of the first is the kernel's for a reset connection.
var (
	ErrReadReset = &net.OpError{Op: "read", Net: "tcp", Err: syscall.ECONNRESET}
	ErrReadEOF   = io.EOF
)

const xTranscriptCap = 1 << 18

// XConn: see the file comment.
type XConn struct {
	*FConn
	xmu      sync.Mutex
	wrote    []byte // transcript of the server's writes (capped; wroteN counts all of them)
	wroteN   int64
	rbudget  int64 // < 0: reads are not touched; otherwise bytes still delivered before every Read fails
	rerr     error
	rfailed  atomic.Bool
	hold     chan struct{} // non-nil: whatever has been read is handed to the teamserver only after ReleaseReads
	released bool
}

func (x *XConn) Write(p []byte) (int, error) {
	n, err := x.FConn.Write(p)
	x.xmu.Lock()
	x.wroteN += int64(n)
	if n > 0 && len(x.wrote) < xTranscriptCap {
		k := n
		if len(x.wrote)+k > xTranscriptCap {
			k = xTranscriptCap - len(x.wrote)
		}
		x.wrote = append(x.wrote, p[:k]...)
	}
	x.xmu.Unlock()
	return n, err
}

func (x *XConn) Read(p []byte) (int, error) {
	x.xmu.Lock()
	if x.rbudget == 0 {
		err := x.rerr
		x.xmu.Unlock()
		x.rfailed.Store(true)
		return 0, err
	}
	x.xmu.Unlock()
	n, err := x.FConn.Conn.Read(p)
	// (the Read that was already waiting in the kernel when a fault was armed ends here too)
	x.xmu.Lock()
	h := x.hold
	x.xmu.Unlock()
	if h != nil {
		t := time.NewTimer(Watchdog + 15*time.Second) // (never relied on: the interpreters release in a defer)
		select {
		case <-h:
			t.Stop()
		case <-t.C:
		}
	}
	x.xmu.Lock()
	defer x.xmu.Unlock()
	if x.rbudget >= 0 {
		if x.rbudget == 0 {
			x.rfailed.Store(true)
			return 0, x.rerr
		}
		if int64(n) > x.rbudget {
			n = int(x.rbudget) // the rest never arrives
		}
		x.rbudget -= int64(n)
		if n > 0 {
			return n, nil
		}
		if err == nil {
			return 0, nil
		}
	}
	return n, err
}

// FailReadsAfter: the teamserver still gets the next n bytes the peer sends, then every Read
// on this connection fails with err (ErrReadReset, ErrReadEOF).
func (x *XConn) FailReadsAfter(n int64, err error) {
	x.xmu.Lock()
	x.rbudget = n
	x.rerr = err
	x.xmu.Unlock()
}

// ReadFailed: a Read of the teamserver has been failed by FailReadsAfter.
func (x *XConn) ReadFailed() bool { return x.rfailed.Load() }

// HoldReads: from now on nothing the peer sends is handed to the teamserver until ReleaseReads.
func (x *XConn) HoldReads() {
	x.xmu.Lock()
	if x.hold == nil && !x.released {
		x.hold = make(chan struct{})
	}
	x.xmu.Unlock()
}

// ReleaseReads ends HoldReads (idempotent; HoldReads has no effect afterwards).
func (x *XConn) ReleaseReads() {
	x.xmu.Lock()
	if x.hold != nil {
		close(x.hold)
		x.hold = nil
	}
	x.released = true
	x.xmu.Unlock()
}

// Wrote: every byte the teamserver has written to this connection since the websocket was
// established (the HTTP answer of the upgrade is left out); complete is false if the
// transcript cap was reached.
func (x *XConn) Wrote() (b []byte, complete bool) {
	x.xmu.Lock()
	defer x.xmu.Unlock()
	// (the HTTP answer is the first thing written and ends with an empty line; the websocket
	// layer takes over only after it)
	i := bytes.Index(x.wrote, []byte("\r\n\r\n"))
	if i < 0 {
		return nil, x.wroteN <= int64(len(x.wrote))
	}
	return append([]byte(nil), x.wrote[i+4:]...), x.wroteN <= int64(len(x.wrote))
}

type xListener struct {
	net.Listener
	f   *Fixture
	mu  sync.Mutex
	got []*XConn
}

func (l *xListener) Accept() (net.Conn, error) {
	c, err := l.Listener.Accept()
	if err != nil {
		return nil, err
	}
	if tc, ok := c.(*net.TCPConn); ok {
		tc.SetNoDelay(true)
	}
	fc := &FConn{Conn: c, budget: -1, pauseAt: -1, cutWrites: -1}
	// known to the fixture's listener like any other accepted connection (Peer, KillAll)
	l.f.L.mu.Lock()
	l.f.L.conns[c.RemoteAddr().String()] = fc
	l.f.L.mu.Unlock()
	xc := &XConn{FConn: fc, rbudget: -1}
	l.mu.Lock()
	l.got = append(l.got, xc)
	l.mu.Unlock()
	return xc, nil
}

// DialX is Dial through a listener that exists for this one connection and hands out an
// XConn.  The client socket has linger 0 (closing it resets the connection) and no delay.
// Client.Peer is the XConn's FConn.
func (f *Fixture) DialX(path string) (*Client, *XConn, error) {
	tl, err := core.ListenLoopback("tcp4")
	if err != nil {
		return nil, nil, err
	}
	xl := &xListener{Listener: tl, f: f}
	served := make(chan struct{})
	go func() { http.Serve(xl, f.TS.Server.Engine); close(served) }()
	defer func() { tl.Close(); <-served }()

	d := websocket.Dialer{HandshakeTimeout: 60 * time.Second, ReadBufferSize: 8192, WriteBufferSize: 8192,
		NetDial: func(network, addr string) (net.Conn, error) {
			nd := net.Dialer{Timeout: 60 * time.Second}
			c, err := nd.Dial("tcp4", addr)
			if err != nil {
				return nil, err
			}
			if tc, ok := c.(*net.TCPConn); ok {
				tc.SetLinger(0)
				tc.SetNoDelay(true)
			}
			return c, nil
		}}
	ws, _, err := d.Dial(fmt.Sprintf("ws://127.0.0.1:%d%s", tl.Addr().(*net.TCPAddr).Port, path), nil)
	if err != nil {
		return nil, nil, err
	}
	c := &Client{Conn: ws, Local: ws.LocalAddr().String(), frames: make(chan Frame, 1<<15), done: make(chan struct{})}
	var xc *XConn
	xl.mu.Lock()
	for _, x := range xl.got {
		if x.RemoteAddr().String() == c.Local {
			xc = x
		}
	}
	xl.mu.Unlock()
	if xc == nil {
		ws.Close()
		return nil, nil, fmt.Errorf("no server-side connection for %s", c.Local)
	}
	c.Peer = xc.FConn
	f.clients = append(f.clients, c)
	go func() {
		defer close(c.done)
		for {
			t, d, err := ws.ReadMessage()
			if err != nil {
				c.ReadErr = err
				return
			}
			c.frames <- Frame{t, d}
		}
	}()
	return c, xc, nil
}

// ---------------------------------------------------------------- raw client side

// ClientFrame builds one final masked client-to-server frame with the given opcode
// (websocket.TextMessage / BinaryMessage).  send < 0: the whole frame; otherwise the frame
// announces len(payload) bytes but only the first `send` bytes OF THE FRAME (header, mask
// and payload counted together) are returned - a frame its sender cut short.
// The mask is fixed: the bytes on the wire depend on nothing but the arguments.
func ClientFrame(opcode int, payload []byte, send int) []byte {
	mask := [4]byte{0x37, 0xfa, 0x21, 0x3d}
	fr := []byte{0x80 | byte(opcode&0x0f)}
	switch n := len(payload); {
	case n < 126:
		fr = append(fr, 0x80|byte(n))
	case n < 1<<16:
		fr = append(fr, 0x80|126, 0, 0)
		binary.BigEndian.PutUint16(fr[2:], uint16(n))
	default:
		fr = append(fr, 0x80|127, 0, 0, 0, 0, 0, 0, 0, 0)
		binary.BigEndian.PutUint64(fr[2:], uint64(n))
	}
	fr = append(fr, mask[:]...)
	off := len(fr)
	fr = append(fr, payload...)
	for i := range payload {
		fr[off+i] ^= mask[i%4]
	}
	if send >= 0 && send < len(fr) {
		fr = fr[:send]
	}
	return fr
}

// SendRaw writes b to the client's socket in one Write, past the websocket layer.
func (c *Client) SendRaw(b []byte) error {
	c.wmu.Lock()
	defer c.wmu.Unlock()
	_, err := c.Conn.UnderlyingConn().Write(b)
	return err
}

// ResetNow closes the client end with SO_LINGER 0: the kernel sends RST at once, discards
// what was not yet sent and what was not yet read.
func (c *Client) ResetNow() {
	c.aborted.Do(func() {
		u := c.Conn.UnderlyingConn()
		if tc, ok := u.(*net.TCPConn); ok {
			tc.SetLinger(0)
		}
		u.Close()
	})
}

// ---------------------------------------------------------------- server-to-client stream

// ParseServerFrames reads an (unmasked) server-to-client byte stream: the complete messages
// in it (fragments joined; control frames are returned as messages of their opcode), and the
// bytes of the frame that was cut short, if any, split into what is known of its header and
// the part of its payload that is there.
func ParseServerFrames(b []byte) (msgs []Frame, partialPayload []byte, partial bool, err error) {
	var cur *Frame
	for len(b) > 0 {
		if len(b) < 2 {
			return msgs, nil, true, nil
		}
		fin := b[0]&0x80 != 0
		op := int(b[0] & 0x0f)
		if b[1]&0x80 != 0 {
			return msgs, nil, false, errors.New("masked frame from the server")
		}
		n := uint64(b[1] & 0x7f)
		h := 2
		switch n {
		case 126:
			if len(b) < 4 {
				return msgs, nil, true, nil
			}
			n = uint64(binary.BigEndian.Uint16(b[2:]))
			h = 4
		case 127:
			if len(b) < 10 {
				return msgs, nil, true, nil
			}
			n = binary.BigEndian.Uint64(b[2:])
			h = 10
		}
		if uint64(len(b)-h) < n {
			pp := b[h:]
			if cur != nil {
				pp = append(append([]byte(nil), cur.Data...), pp...)
			}
			return msgs, pp, true, nil
		}
		data := b[h : h+int(n)]
		b = b[h+int(n):]
		switch {
		case op >= 8: // control
			msgs = append(msgs, Frame{op, append([]byte(nil), data...)})
		case op == 0:
			if cur == nil {
				return msgs, nil, false, errors.New("continuation frame without a start")
			}
			cur.Data = append(cur.Data, data...)
			if fin {
				msgs = append(msgs, *cur)
				cur = nil
			}
		default:
			if cur != nil {
				return msgs, nil, false, errors.New("data frame inside a fragmented message")
			}
			f := Frame{op, append([]byte(nil), data...)}
			if fin {
				msgs = append(msgs, f)
			} else {
				cur = &f
			}
		}
	}
	if cur != nil {
		return msgs, cur.Data, true, nil
	}
	return msgs, nil, false, nil
}

package wsx

import (
	"encoding/base64"
	"fmt"
	"sort"
	"strconv"
	"time"

	"Havoc/cmd/server"
	"Havoc/pkg/agent"
	"Havoc/pkg/packager"

	"verifharness/internal/core"
)

// Watchdog is the bound on any single operation that the properties say completes.
const Watchdog = 45 * time.Second

// NewAgent builds a session record the way the listener code does after a
// registration request was parsed (only the fields the event code reads).
func NewAgent(id uint32) *agent.Agent {
	a := &agent.Agent{NameID: fmt.Sprintf("%08x", id), Active: true, Info: &agent.AgentInfo{}}
	a.Encryption.AESKey = make([]byte, 32)
	a.Encryption.AESIv = make([]byte, 16)
	for i := range a.Encryption.AESKey {
		a.Encryption.AESKey[i] = byte(id>>uint(8*(i%4))) ^ byte(i*7+1)
	}
	for i := range a.Encryption.AESIv {
		a.Encryption.AESIv[i] = byte(id>>uint(8*(i%4))) ^ byte(i*13+5)
	}
	a.Info.MagicValue = 0xdeadbeef
	a.Info.Hostname = "HOST-" + a.NameID
	a.Info.Username = "user"
	a.Info.DomainName = "DOM"
	a.Info.InternalIP = "10.0.0.7"
	a.Info.ExternalIP = "127.0.0.1"
	a.Info.ProcessName = "p.exe"
	a.Info.ProcessArch = "x64"
	a.Info.OSArch = "x64/AMD64"
	a.Info.OSVersion = "Windows 10"
	a.Info.Elevated = "false"
	a.Info.SleepDelay = 2
	a.Info.FirstCallIn = "01-01-2024 00:00:00"
	a.Info.LastCallIn = "01-01-2024 00:00:00"
	return a
}

// AgentKeyB64 is the AES key as the NewSession event carries it.
func AgentKeyB64(id uint32) string {
	return base64.StdEncoding.EncodeToString(NewAgent(id).Encryption.AESKey)
}

// Pkg builds the JSON an operator client sends (client/src/Havoc/Packager.cc EncodePackage).
func Pkg(event int, user string, sub int, info map[string]any) packager.Package {
	return packager.Package{
		Head: packager.Head{Event: event, User: user, Time: "01/01/2024 00:00:00", OneTime: ""},
		Body: packager.Body{SubEvent: sub, Info: info},
	}
}

// LoginPkg is what Connector::SendLogin sends.
func LoginPkg(user, password string) packager.Package {
	return Pkg(packager.Type.InitConnection.Type, user, packager.Type.InitConnection.OAuthRequest,
		map[string]any{"User": user, "Password": Digest(password)})
}

// ChatPkg is what the chat widget sends.
func ChatPkg(user, text string) packager.Package {
	return Pkg(packager.Type.Chat.Type, user, packager.Type.Chat.NewMessage,
		map[string]any{user: base64.StdEncoding.EncodeToString([]byte(text))})
}

// BarrierPkg is a one-shot chat message (Head.OneTime "true": broadcast, never retained).
// A newcomer sends it right after its replay has arrived: its echo proves that the
// newcomer's handler has left SendAllPackagesToNewClient and is in its dispatch loop
// (a session registered while the replay loop is still running is otherwise announced
// to the newcomer twice, once live and once by the loop).
func BarrierPkg(user, text string) packager.Package {
	p := ChatPkg(user, text)
	p.Head.OneTime = "true"
	return p
}

// HalfClose shuts down our sending direction: the server reads everything we sent and
// then EOF, while what it writes still reaches us.
func (c *Client) HalfClose() {
	type cw interface{ CloseWrite() error }
	if t, ok := c.Conn.UnderlyingConn().(cw); ok {
		t.CloseWrite()
	}
}

// Expect reads exactly len(want) messages from c and compares their projections.
func (c *Client) Expect(who string, want []string, sigPrefix string) *core.Violation {
	for i, w := range want {
		fr, ok, closed := c.Next(Watchdog)
		if !ok {
			if closed {
				return core.V(sigPrefix+"|missing|connection-ended", "%s: connection ended (%v) before message %d of %d (%q) arrived", who, c.ReadErr, i+1, len(want), w)
			}
			return core.V(sigPrefix+"|missing|"+kindOf(w), "%s: message %d of %d (%q) did not arrive within %v", who, i+1, len(want), w, Watchdog)
		}
		pk, err := Decode(fr)
		if err != nil {
			return core.V(sigPrefix+"|not-one-package", "%s: message %d is not exactly one JSON package: %v: %.200q", who, i+1, err, fr.Data)
		}
		if got := Proj(pk); got != w {
			time.Sleep(2 * time.Millisecond)
			var next []string
			for _, f := range c.Pending() {
				if p, err := Decode(f); err == nil {
					next = append(next, Proj(p))
				}
			}
			return core.V(sigPrefix+"|wrong|want="+kindOf(w)+"|got="+kindOf(got), "%s: message %d of %d: got %q, want %q (expected sequence %v; already queued behind it: %v)", who, i+1, len(want), got, w, want, next)
		}
	}
	return nil
}

func kindOf(p string) string {
	for i := 0; i < len(p); i++ {
		if p[i] == '/' {
			return p[:i]
		}
	}
	return p
}

// KindOf is the part of a projection before the first '/'.
func KindOf(p string) string { return kindOf(p) }

// Snapshot is the teamserver state the C06 oracle demands unchanged.
type Snapshot struct {
	Listeners  []string
	Endpoints  []string
	Agents     []string // id:active:queued
	Events     []string
	DBListener []string
	DBAgents   []string
	SvcAgents  []string
	SvcListen  []string
	AuthClients []string // authenticated client records: "user@peer-address"
}

func (f *Fixture) Snapshot() Snapshot {
	ts := f.TS
	var s Snapshot
	for _, l := range ts.Listeners {
		s.Listeners = append(s.Listeners, l.Name)
	}
	for _, e := range ts.Endpoints {
		s.Endpoints = append(s.Endpoints, e.Endpoint)
	}
	for _, a := range ts.Agents.Agents {
		s.Agents = append(s.Agents, a.NameID+":"+strconv.FormatBool(a.Active)+":"+strconv.Itoa(len(a.JobQueue)))
	}
	for _, e := range ts.EventsList {
		s.Events = append(s.Events, Proj(e))
	}
	ts.Clients.Range(func(k, v any) bool {
		if cl := v.(*server.Client); cl.Authenticated {
			s.AuthClients = append(s.AuthClients, cl.Username+"@"+cl.GlobalIP)
		}
		return true
	})
	sort.Strings(s.AuthClients)
	s.DBListener = ts.DB.ListenerNames()
	sort.Strings(s.DBListener)
	for _, a := range ts.DB.AgentAll() {
		s.DBAgents = append(s.DBAgents, a.NameID)
	}
	sort.Strings(s.DBAgents)
	if ts.Service != nil {
		for _, a := range ts.Service.Agents {
			s.SvcAgents = append(s.SvcAgents, a.Name)
		}
		for _, l := range ts.Service.Listeners {
			s.SvcListen = append(s.SvcListen, l.Name)
		}
	}
	return s
}

// Diff names the first component in which two snapshots differ ("" if equal).
func (a Snapshot) Diff(b Snapshot) (string, string) {
	cmp := func(x, y []string) bool {
		if len(x) != len(y) {
			return false
		}
		for i := range x {
			if x[i] != y[i] {
				return false
			}
		}
		return true
	}
	switch {
	case !cmp(a.Listeners, b.Listeners):
		return "listeners", fmt.Sprintf("%v -> %v", a.Listeners, b.Listeners)
	case !cmp(a.Endpoints, b.Endpoints):
		return "endpoints", fmt.Sprintf("%v -> %v", a.Endpoints, b.Endpoints)
	case !cmp(a.Agents, b.Agents):
		return "agents-or-job-queues", fmt.Sprintf("%v -> %v", a.Agents, b.Agents)
	case !cmp(a.Events, b.Events):
		return "retained-events", fmt.Sprintf("%v -> %v", a.Events, b.Events)
	case !cmp(a.DBListener, b.DBListener):
		return "db-listeners", fmt.Sprintf("%v -> %v", a.DBListener, b.DBListener)
	case !cmp(a.DBAgents, b.DBAgents):
		return "db-agents", fmt.Sprintf("%v -> %v", a.DBAgents, b.DBAgents)
	case !cmp(a.SvcAgents, b.SvcAgents):
		return "service-agents", fmt.Sprintf("%v -> %v", a.SvcAgents, b.SvcAgents)
	case !cmp(a.AuthClients, b.AuthClients):
		return "authenticated-clients", fmt.Sprintf("%v -> %v", a.AuthClients, b.AuthClients)
	case !cmp(a.SvcListen, b.SvcListen):
		return "service-listeners", fmt.Sprintf("%v -> %v", a.SvcListen, b.SvcListen)
	}
	return "", ""
}

package wsx

import (
	"bufio"
	"encoding/json"
	"fmt"
	"io"
	"os"
	"os/exec"
	"strings"
	"sync"
	"testing"
	"time"

	"verifharness/internal/core"
)

// A panic in a goroutine that Havoc spawns (the per-connection handlers) cannot be
// recovered and ends the process.  So that exploration goes on past such an input,
// cases are interpreted in a worker subprocess (this same test binary, started with
// VERIF_WSX_WORKER=1): the exploring process sends the case as one JSON line and
// reads the verdict; if the worker dies instead, the verdict is `crash|<innermost
// Havoc frame>` built from the worker's stderr, and a new worker is started for the
// next case.  VERIF_WSX_INPROC=1 interprets in-process (debugging).

type Handler func(raw json.RawMessage) *core.Violation

type request struct {
	Kind string          `json:"kind"`
	Case json.RawMessage `json:"case"`
}

type reply struct {
	V   *core.Violation `json:"v"`
	Obs map[string]int  `json:"obs,omitempty"`
}

const replyMark = "WSXREPLY "

var (
	handlers map[string]Handler

	obsMu  sync.Mutex
	obsCur = map[string]int{}
	obsTot = map[string]int{}
)

// Obs counts an observation made while interpreting a case (reported in the
// evidence under extra.observed).
func Obs(k string) {
	obsMu.Lock()
	obsCur[k]++
	obsMu.Unlock()
}

func takeObs() map[string]int {
	obsMu.Lock()
	defer obsMu.Unlock()
	o := obsCur
	obsCur = map[string]int{}
	return o
}

func addTotals(o map[string]int) {
	obsMu.Lock()
	for k, v := range o {
		obsTot[k] += v
	}
	cp := map[string]int{}
	for k, v := range obsTot {
		cp[k] = v
	}
	obsMu.Unlock()
	core.SetExtra("observed", cp)
}

// Main is the TestMain body of a package that uses the fixture.
func Main(m *testing.M, h map[string]Handler) {
	handlers = h
	if os.Getenv("VERIF_WSX_WORKER") == "1" {
		serve()
		os.Exit(0)
	}
	code := m.Run()
	stopWorker()
	Cleanup()
	os.Exit(code)
}

func serve() {
	Init()
	in := bufio.NewReaderSize(os.Stdin, 1<<20)
	out := bufio.NewWriter(os.Stdout)
	for {
		line, err := in.ReadBytes('\n')
		if len(line) > 0 {
			var rq request
			var rp reply
			if e := json.Unmarshal(line, &rq); e != nil {
				rp.V = core.V("harness|bad-request", "%v", e)
			} else if h, ok := handlers[rq.Kind]; !ok {
				rp.V = core.V("harness|unknown-kind", "%q", rq.Kind)
			} else {
				rp.V = core.Guard(func() *core.Violation { return h(rq.Case) })
			}
			rp.Obs = takeObs()
			b, _ := json.Marshal(rp)
			out.WriteString(replyMark)
			out.Write(b)
			out.WriteByte('\n')
			out.Flush()
		}
		if err != nil {
			return
		}
	}
}

// ---------------------------------------------------------------- parent side

type ring struct {
	mu  sync.Mutex
	buf []byte
}

func (r *ring) Write(p []byte) (int, error) {
	r.mu.Lock()
	r.buf = append(r.buf, p...)
	if len(r.buf) > 1<<18 {
		r.buf = append([]byte(nil), r.buf[len(r.buf)-(1<<17):]...)
	}
	r.mu.Unlock()
	return len(p), nil
}

func (r *ring) String() string {
	r.mu.Lock()
	defer r.mu.Unlock()
	return string(r.buf)
}

type worker struct {
	cmd    *exec.Cmd
	in     io.WriteCloser
	out    *bufio.Reader
	stderr *ring
	root   string
	waited chan struct{}
}

var (
	wmu sync.Mutex
	wk  *worker
)

func startWorker() (*worker, error) {
	root, err := ScratchDir("wsxw")
	if err != nil {
		return nil, err
	}
	cmd := exec.Command(os.Args[0], "-test.run=^$")
	cmd.Env = append(os.Environ(), "VERIF_WSX_WORKER=1", "VERIF_WSX_ROOT="+root)
	cmd.Dir = root
	w := &worker{cmd: cmd, stderr: &ring{}, root: root, waited: make(chan struct{})}
	if w.in, err = cmd.StdinPipe(); err != nil {
		return nil, err
	}
	so, err := cmd.StdoutPipe()
	if err != nil {
		return nil, err
	}
	w.out = bufio.NewReaderSize(so, 1<<20)
	cmd.Stderr = w.stderr
	if err := cmd.Start(); err != nil {
		os.RemoveAll(root)
		return nil, err
	}
	return w, nil
}

func (w *worker) reap() {
	done := make(chan struct{})
	go func() { w.cmd.Wait(); close(done) }()
	select {
	case <-done:
	case <-time.After(10 * time.Second):
		w.cmd.Process.Kill()
		<-done
	}
	os.RemoveAll(w.root)
}

func stopWorker() {
	wmu.Lock()
	defer wmu.Unlock()
	if wk != nil {
		wk.in.Close()
		wk.reap()
		wk = nil
	}
}

// crashFrame: innermost Havoc frame after the panic / fatal error line.
func crashFrame(text string) string {
	i := strings.Index(text, "panic:")
	if j := strings.Index(text, "fatal error:"); j >= 0 && (i < 0 || j < i) {
		i = j
	}
	if i < 0 {
		return "unknown"
	}
	for _, ln := range strings.Split(text[i:], "\n") {
		if strings.HasPrefix(ln, "Havoc/") {
			if k := strings.LastIndex(ln, "("); k > 0 {
				ln = ln[:k]
			}
			return ln
		}
	}
	return "unknown"
}

// CaseTimeout bounds one case in the worker (the interpreters have their own 20 s
// watchdogs per operation; this only catches an interpreter that never returns).
var CaseTimeout = 600 * time.Second

// Exec interprets one case: in the worker subprocess, or in-process when
// VERIF_WSX_INPROC=1.
func Exec(kind string, c any) *core.Violation {
	v := exec1(kind, c)
	if v != nil && strings.HasPrefix(v.Sig, "harness|") {
		// the fixture itself failed (could not listen / dial / start a worker): not a verdict
		// about Havoc.  Try once more on a fresh worker; if it fails again give up as
		// inconclusive (exit status without a violation record), never as a violation.
		fmt.Fprintf(os.Stderr, "wsx: harness failure [%s] %s -- retrying on a fresh worker\n", v.Sig, v.Msg)
		stopWorker()
		Discard()
		v = exec1(kind, c)
		if v != nil && strings.HasPrefix(v.Sig, "harness|") {
			fmt.Fprintf(os.Stderr, "wsx: harness failure persists [%s] %s -- giving up (inconclusive)\n", v.Sig, v.Msg)
			stopWorker()
			Cleanup()
			os.Exit(2)
		}
	}
	return v
}

func exec1(kind string, c any) *core.Violation {
	raw, err := json.Marshal(c)
	if err != nil {
		return core.V("harness|marshal", "%v", err)
	}
	if os.Getenv("VERIF_WSX_INPROC") == "1" {
		Init()
		v := core.Guard(func() *core.Violation { return handlers[kind](raw) })
		addTotals(takeObs())
		return v
	}
	wmu.Lock()
	defer wmu.Unlock()
	if wk == nil {
		w, err := startWorker()
		if err != nil {
			return core.V("harness|worker-start", "%v", err)
		}
		wk = w
	}
	w := wk
	line, _ := json.Marshal(request{Kind: kind, Case: raw})
	line = append(line, '\n')
	type res struct {
		rp  reply
		err error
	}
	ch := make(chan res, 1)
	go func() {
		if _, err := w.in.Write(line); err != nil {
			ch <- res{err: err}
			return
		}
		for {
			l, err := w.out.ReadString('\n')
			if strings.HasPrefix(l, replyMark) {
				var rp reply
				if e := json.Unmarshal([]byte(l[len(replyMark):]), &rp); e != nil {
					ch <- res{err: e}
				} else {
					ch <- res{rp: rp}
				}
				return
			}
			if err != nil {
				ch <- res{err: err}
				return
			}
		}
	}()
	select {
	case r := <-ch:
		if r.err == nil {
			addTotals(r.rp.Obs)
			return r.rp.V
		}
		// the worker died while interpreting this case
		w.in.Close()
		w.reap()
		wk = nil
		st := w.stderr.String()
		frame := crashFrame(st)
		if len(st) > 7000 {
			if i := strings.Index(st, "panic:"); i >= 0 && len(st)-i > 7000 {
				st = st[i : i+7000]
			} else if len(st) > 7000 {
				st = st[len(st)-7000:]
			}
		}
		addTotals(map[string]int{"worker-crash": 1})
		return core.V("crash|"+frame, "the teamserver process died while handling this case (%v, %v)\n%s", r.err, w.cmd.ProcessState, st)
	case <-time.After(CaseTimeout):
		w.cmd.Process.Kill()
		w.reap()
		wk = nil
		return core.V("harness|case-timeout", "the worker did not answer within %v\n%s", CaseTimeout, fmt.Sprint(w.stderr.String()))
	}
}

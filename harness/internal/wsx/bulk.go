package wsx

// Optional pieces for histories with MANY connections (used by C06(c) scale classes): a
// dial whose client has a small frame queue (Dial/DialFrom give every client a queue of
// 32768 frames = 1 MiB, which a thousand simultaneously open connections cannot afford),
// one-pass views of the client table, and the descriptor limit.  Nothing here changes the
// behaviour of the existing functions.

import (
	"fmt"
	"net"
	"syscall"
	"time"

	"github.com/gorilla/websocket"

	"Havoc/cmd/server"
)

// DialFromQ is DialFrom for a kernel-chosen port on the given local ip (nil: no bind at all,
// the kernel picks address and port at connect time; linger 0, no delay; no SO_REUSEADDR:
// not meant for explicit ports) with a frame queue of `queue` entries and
// 1 KiB websocket buffers.  The caller must read often enough that the queue never fills
// (a full queue blocks the reader and, behind it, the teamserver's writes).
func (f *Fixture) DialFromQ(path string, local *net.TCPAddr, queue int) (*Client, error) {
	if queue < 1 {
		queue = 1
	}
	var nd net.Dialer
	if local != nil {
		nd.LocalAddr = local
	}
	d := websocket.Dialer{
		HandshakeTimeout: 60 * time.Second, ReadBufferSize: 1024, WriteBufferSize: 1024,
		NetDial: func(network, addr string) (net.Conn, error) {
			c, err := nd.Dial("tcp4", addr)
			if err != nil {
				return nil, err
			}
			if tc, ok := c.(*net.TCPConn); ok {
				tc.SetLinger(0)
				tc.SetNoDelay(true)
			}
			return c, nil
		},
	}
	ws, _, err := d.Dial(f.Base+path, nil)
	if err != nil {
		return nil, err
	}
	c := &Client{Conn: ws, Local: ws.LocalAddr().String(), frames: make(chan Frame, queue), done: make(chan struct{})}
	c.Peer = f.L.Peer(c.Local)
	if c.Peer == nil {
		ws.Close()
		return nil, fmt.Errorf("no server-side connection for %s", c.Local)
	}
	f.clients = append(f.clients, c)
	go func() {
		defer close(c.done)
		for {
			t, d, err := ws.ReadMessage()
			if err != nil {
				c.ReadErr = err
				return
			}
			c.frames <- Frame{t, d}
		}
	}()
	return c, nil
}

// ClientAddrs is one pass over the teamserver's client table: peer address -> client id.
// (Two records with the same peer address cannot exist; two connections whose random
// client ids collide share ONE record, so the map is then smaller than the number of
// open connections.)
func (f *Fixture) ClientAddrs() map[string]string {
	out := map[string]string{}
	f.TS.Clients.Range(func(k, v any) bool {
		out[v.(*server.Client).GlobalIP] = k.(string)
		return true
	})
	return out
}

// ClientCount: number of records in the client table (authenticated or not).
func (f *Fixture) ClientCount() int {
	n := 0
	f.TS.Clients.Range(func(k, v any) bool { n++; return true })
	return n
}

// RaiseNoFile lifts the soft RLIMIT_NOFILE of this process to its hard limit and returns
// the resulting soft limit (0 if it cannot be read).
func RaiseNoFile() uint64 {
	var r syscall.Rlimit
	if syscall.Getrlimit(syscall.RLIMIT_NOFILE, &r) != nil {
		return 0
	}
	if r.Cur < r.Max {
		r2 := r
		r2.Cur = r.Max
		if syscall.Setrlimit(syscall.RLIMIT_NOFILE, &r2) == nil {
			r = r2
		}
	}
	return r.Cur
}

// MaxConns: how many loopback websocket connections one case can hold open at once with
// the current descriptor limit.  Both ends of a connection live in the worker process
// (2 descriptors each); 256 descriptors are left for everything else.
func MaxConns() int {
	var r syscall.Rlimit
	if syscall.Getrlimit(syscall.RLIMIT_NOFILE, &r) != nil {
		return 256
	}
	if r.Cur > 1<<20 {
		return 1 << 19
	}
	n := (int(r.Cur) - 256) / 2
	if n < 0 {
		n = 0
	}
	return n
}

package wsx

// Optional extension (used by C06c): connections whose local address is chosen by the
// case instead of by the kernel, so that a history can contain a connection that arrives
// from the exact ip:port of an earlier, departed one, or from another loopback address
// with the same port.  Nothing here changes what Dial does.

import (
	"context"
	"errors"
	"fmt"
	"net"
	"syscall"
	"time"

	"github.com/gorilla/websocket"
)

// DialFrom connects to path on the harness listener from the local address `local`
// (port 0: kernel-chosen port on that ip).  For an explicit port SO_REUSEADDR is set
// before bind.  The socket is set to linger 0: closing it (Client.Abort) resets the
// connection, so neither end keeps a TIME_WAIT entry and the same ip:port can be bound
// and connected again at once.  A bind/connect refusal by the kernel is returned as is;
// IsAddrBusy recognises it.
func (f *Fixture) DialFrom(path string, local *net.TCPAddr) (*Client, error) {
	d := websocket.Dialer{
		HandshakeTimeout: 60 * time.Second, ReadBufferSize: 8192, WriteBufferSize: 8192,
		NetDialContext: func(ctx context.Context, network, addr string) (net.Conn, error) {
			nd := net.Dialer{LocalAddr: local}
			if local != nil && local.Port != 0 {
				nd.Control = func(network, address string, rc syscall.RawConn) error {
					var serr error
					if err := rc.Control(func(fd uintptr) {
						serr = syscall.SetsockoptInt(int(fd), syscall.SOL_SOCKET, syscall.SO_REUSEADDR, 1)
					}); err != nil {
						return err
					}
					return serr
				}
			}
			c, err := nd.DialContext(ctx, "tcp4", addr)
			if err != nil {
				return nil, err
			}
			if tc, ok := c.(*net.TCPConn); ok {
				tc.SetLinger(0)
				tc.SetNoDelay(true)
			}
			return c, nil
		},
	}
	ws, _, err := d.Dial(f.Base+path, nil)
	if err != nil {
		return nil, err
	}
	c := &Client{Conn: ws, Local: ws.LocalAddr().String(), frames: make(chan Frame, 1<<15), done: make(chan struct{})}
	c.Peer = f.L.Peer(c.Local)
	if c.Peer == nil {
		ws.Close()
		return nil, fmt.Errorf("no server-side connection for %s", c.Local)
	}
	f.clients = append(f.clients, c)
	go func() {
		defer close(c.done)
		for {
			t, d, err := ws.ReadMessage()
			if err != nil {
				c.ReadErr = err
				return
			}
			c.frames <- Frame{t, d}
		}
	}()
	return c, nil
}

// IsAddrBusy: the kernel refused to bind or connect from the requested local address
// (still in use by some socket of this or another process).  Says nothing about the
// code under test.
func IsAddrBusy(err error) bool {
	return errors.Is(err, syscall.EADDRINUSE) || errors.Is(err, syscall.EADDRNOTAVAIL)
}

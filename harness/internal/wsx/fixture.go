package wsx

import (
	"verifharness/internal/core"
	"bytes"
	"encoding/hex"
	"fmt"
	"net"
	"net/http"
	"os"
	"path/filepath"
	"reflect"
	"runtime"
	"sort"
	"strconv"
	"strings"
	"sync"
	"time"

	"golang.org/x/crypto/sha3"

	"Havoc/cmd/server"
	"Havoc/pkg/events"
	"Havoc/pkg/logger"
	"Havoc/pkg/profile"

	"verifharness/internal/tsx"
)

// SvcEndpoint is the service endpoint path every fixture teamserver is started with.
const SvcEndpoint = "svc-endpoint"

type User struct {
	Name     string `json:"name"`
	Password string `json:"password"`
}

// Digest is what a real client puts into Body.Info.Password (client/src/Havoc/Connector.cc).
func Digest(password string) string {
	h := sha3.Sum256([]byte(password))
	return hex.EncodeToString(h[:])
}

var (
	initOnce sync.Once
	rootDir  string
	ownsRoot bool
	readyCh  = make(chan struct{}, 64)
	tsSeq    int
	cur      *Fixture
)

// logSink receives every log line of the (process-global) Havoc logger.  The only
// thing it looks for is the last statement of Start() before it blocks; the channel
// send is also the synchronisation edge that makes the fields Start() wrote visible
// to the harness (no unsynchronised polling of ts.Server.Engine).
type logSink struct{}

var readyMark = []byte("Wait til the server shutdown")

var (
	errMu    sync.Mutex
	errLines []string
)

// TakeErrors returns (and forgets) the teamserver's recent error-level log lines: they say
// why a send failed (e.g. the teamserver's own write deadline expiring on an overloaded
// machine), which the websocket side cannot see.
func TakeErrors() []string {
	errMu.Lock()
	defer errMu.Unlock()
	e := errLines
	errLines = nil
	return e
}

func (logSink) Write(p []byte) (int, error) {
	if bytes.Contains(p, []byte("ERRO")) {
		errMu.Lock()
		if len(errLines) < 200 {
			l := string(p)
			if len(l) > 300 {
				l = l[:300]
			}
			errLines = append(errLines, strings.TrimSpace(l))
		}
		errMu.Unlock()
	}
	if bytes.Contains(p, readyMark) {
		select {
		case readyCh <- struct{}{}:
		default:
		}
	}
	return len(p), nil
}

// Init prepares the process-global environment once: cwd = a temp dir with data/
// (Start() resolves data/server.cert|key and the DB path against os.Getwd()), the
// Havoc logger pointed at logSink with debug output enabled (the readiness line is a
// Debug line), the loot logger rooted inside the temp dir.
func Init() {
	initOnce.Do(func() {
		rootDir = os.Getenv("VERIF_WSX_ROOT")
		if rootDir == "" {
			d, err := ScratchDir("wsx")
			if err != nil {
				panic(err)
			}
			rootDir = d
			ownsRoot = true
		}
		os.MkdirAll(filepath.Join(rootDir, "data"), 0o755)
		if err := os.Chdir(rootDir); err != nil {
			panic(err)
		}
		lg := logger.NewLogger(logSink{})
		lg.ShowTime(false)
		lg.SetDebug(true)
		logger.LoggerInstance = lg
		tsx.SetLoot(filepath.Join(rootDir, "loot"))
	})
}

// ScratchDir makes the per-process working directory of a teamserver.  Every session /
// listener change is a synchronous sqlite commit; on a disk-backed /tmp that fsync
// dominates the cost of a case, so the directory is put on tmpfs (/dev/shm) when that
// exists.  The name carries the creating pid; directories of dead processes (a run
// that was killed) are swept first.
func ScratchDir(prefix string) (string, error) {
	base := os.TempDir()
	if st, err := os.Stat("/dev/shm"); err == nil && st.IsDir() {
		if f, err := os.CreateTemp("/dev/shm", "wsx-probe-"); err == nil {
			f.Close()
			os.Remove(f.Name())
			base = "/dev/shm"
		}
	}
	if ents, err := os.ReadDir(base); err == nil {
		for _, e := range ents {
			var pfx string
			var pid int
			n := e.Name()
			if i := strings.Index(n, "-p"); i > 0 && (strings.HasPrefix(n, "wsx-p") || strings.HasPrefix(n, "wsxw-p")) {
				pfx = n[:i]
				rest := n[i+2:]
				if j := strings.Index(rest, "-"); j > 0 {
					pid, _ = strconv.Atoi(rest[:j])
				}
			}
			if pfx != "" && pid > 0 {
				if _, err := os.Stat(fmt.Sprintf("/proc/%d", pid)); os.IsNotExist(err) {
					os.RemoveAll(filepath.Join(base, n))
				}
			}
		}
	}
	return os.MkdirTemp(base, fmt.Sprintf("%s-p%d-", prefix, os.Getpid()))
}

// Cleanup removes the temp dir if this process created it.
func Cleanup() {
	if ownsRoot && rootDir != "" {
		os.Chdir("/")
		os.RemoveAll(rootDir)
	}
}

// Fixture is one running teamserver plus the harness listener its engine is served on.
// It is reused by consecutive cases of a process (starting one costs an RSA-2048 key
// generation); Acquire resets every piece of state a case can change, Release waits
// for the goroutines of the case to be gone and discards the teamserver if they are not.
type Fixture struct {
	TS       *server.Teamserver
	L        *FListener
	Base     string
	TLSBase  string // the teamserver's own TLS listener (used under the race detector, see DialTLS)
	Fresh    bool // first use of this teamserver
	uses     int
	clients  []*Client
}

func newFixture(users []User) (*Fixture, error) {
	l, err := NewFListener()
	if err != nil {
		return nil, err
	}
	tsSeq++
	ts := server.NewTeamserver(fmt.Sprintf("data/ts-%d-%d.db", os.Getpid(), tsSeq))
	if ts == nil {
		return nil, fmt.Errorf("NewTeamserver failed")
	}
	um := map[string]string{}
	for _, u := range users {
		um[u.Name] = u.Password
	}
	ts.Profile = tsx.BasicProfile(um, &profile.ServiceConfig{Endpoint: SvcEndpoint, Password: "initial-service-password"})
	// Start() also serves the engine over TLS on Profile host:port from a goroutine of its
	// own (after generating an RSA key).  It gets a free loopback port: nobody connects to
	// it, it cannot be shut down, and it lives as long as the process (one listening socket
	// per teamserver; teamservers are reused, so there are few).  Letting its bind fail
	// instead would make that goroutine write Start()'s shared `err` variable while
	// connection handlers write it too - a race report that says nothing about this property.
	tlsPort := 0
	if pl, err := core.ListenLoopback("tcp4"); err == nil {
		tlsPort = pl.Addr().(*net.TCPAddr).Port
		pl.Close()
	}
	ts.Flags.Server.Host = "127.0.0.1"
	ts.Flags.Server.Port = strconv.Itoa(tlsPort)
	for len(readyCh) > 0 {
		<-readyCh
	}
	firstDB := ts.DB // Start() opens the same file again under its absolute path and drops this handle
	go ts.Start()
	select {
	case <-readyCh:
	case <-time.After(120 * time.Second):
		return nil, fmt.Errorf("Start() did not reach its blocking point within 120 s")
	}

	go http.Serve(l, ts.Server.Engine)
	f := &Fixture{TS: ts, L: l, Base: fmt.Sprintf("ws://127.0.0.1:%d", l.Port()), TLSBase: fmt.Sprintf("wss://127.0.0.1:%d", tlsPort), Fresh: true}
	if ts.DB != firstDB {
		tsx.CloseDB(firstDB)
	}
	return f, nil
}

// Acquire returns a teamserver in its just-started state: retained events = the
// profile event only, no agents, listeners, endpoints, clients, service
// registrations, empty DB tables; operators and service password as given.
func Acquire(users []User, svcPassword string) (*Fixture, error) {
	Init()
	if cur == nil {
		f, err := newFixture(users)
		if err != nil {
			return nil, err
		}
		cur = f
	} else {
		cur.Fresh = false
	}
	f := cur
	ts := f.TS
	us := append([]User(nil), users...)
	sort.Slice(us, func(i, j int) bool { return us[i].Name < us[j].Name })
	ts.Profile.Config.Operators.Users = nil
	for _, u := range us {
		ts.Profile.Config.Operators.Users = append(ts.Profile.Config.Operators.Users, profile.UsersBlock{Name: u.Name, Password: u.Password})
	}
	ts.Service.Config.Password = svcPassword
	ts.Profile.Config.Service.Password = svcPassword
	ts.Service.Agents = nil
	ts.Service.Listeners = nil
	ts.Clients.Range(func(k, v any) bool { ts.Clients.Delete(k); return true })
	ts.Users = nil
	ts.EventsList = nil
	ts.EventAppend(events.SendProfile(ts.Profile))
	ts.Agents.Agents = nil
	ts.Listeners = []*server.Listener{}
	ts.Endpoints = nil
	for _, n := range ts.DB.ListenerNames() {
		ts.DB.ListenerRemove(n)
	}
	for _, a := range ts.DB.AgentAll() {
		id, _ := strconv.ParseInt(a.NameID, 16, 64)
		ts.DB.AgentRemove(int(id))
	}
	f.clients = nil
	return f, nil
}

// AcquireShared returns the process's teamserver WITHOUT touching any of its state
// (used under the race detector, where a harness-side reset would itself be reported
// as racing with the handler goroutines of earlier cases).  The operators are fixed
// when the teamserver is created; history accumulates across the cases of a process,
// so callers tag their events with Nonce() and ignore everything else.
func AcquireShared(users []User) (*Fixture, error) {
	Init()
	if cur != nil && cur.uses >= 40 {
		// the retained history (replayed to every newcomer) grows with every case
		cur.drop()
	}
	if cur == nil {
		f, err := newFixture(users)
		if err != nil {
			return nil, err
		}
		cur = f
	} else {
		cur.Fresh = false
	}
	cur.clients = nil
	cur.uses++
	return cur, nil
}

var nonce int

// Nonce is a per-process case counter.
func Nonce() int { nonce++; return nonce }

// ForceUnlock releases client mutexes that were left locked (cleanup after the verdict
// has been reached, so that the teamserver can be reused).
func (f *Fixture) ForceUnlock(ids []string) {
	for _, id := range ids {
		if v, ok := f.TS.Clients.Load(id); ok {
			cl := v.(*server.Client)
			if !cl.Mutex.TryLock() {
				cl.Mutex.Unlock()
			} else {
				cl.Mutex.Unlock()
			}
		}
	}
}

// PurgeDead is cleanup after the verdict: the records of connections the case made
// fail are taken out of the client table and their mutexes released, so that the
// handlers of the remaining clients can end (their farewell broadcast would otherwise
// park on a record whose mutex was left locked) and the teamserver can be reused.
func (f *Fixture) PurgeDead(addrs []string) {
	var recs []*server.Client
	for _, a := range addrs {
		if id, cl := f.ClientByAddr(a); id != "" {
			f.TS.Clients.Delete(id)
			recs = append(recs, cl)
		}
	}
	if len(recs) == 0 {
		return
	}
	// a handler that was waiting for one of these mutexes takes it, fails its write and
	// leaves it locked again for the next waiter: keep releasing for a little while
	free := 0
	for round := 0; round < 300 && free < 8; round++ {
		all := true
		for _, cl := range recs {
			if !cl.Mutex.TryLock() {
				all = false
			}
			cl.Mutex.Unlock()
		}
		if all {
			free++
		} else {
			free = 0
		}
		time.Sleep(200 * time.Microsecond)
	}
}

// LiveHandlers counts the goroutines that are executing this teamserver's connection
// code right now: an operator handler (handleRequest with this Teamserver as receiver),
// a service connection handler (handleConnection of this Service), or an HTTP
// connection goroutine that is inside a Havoc route handler.  It reads a dump of all
// goroutines; nothing is inferred from goroutine counts.
func (f *Fixture) LiveHandlers() int {
	buf := make([]byte, 1<<18)
	for {
		n := runtime.Stack(buf, true)
		if n < len(buf) {
			buf = buf[:n]
			break
		}
		buf = make([]byte, 2*len(buf))
	}
	tsArg := fmt.Sprintf("handleRequest(%#x,", reflect.ValueOf(f.TS).Pointer())
	svcArg := "\x00"
	if f.TS.Service != nil {
		svcArg = fmt.Sprintf("handleConnection(%#x,", reflect.ValueOf(f.TS.Service).Pointer())
	}
	live := 0
	for _, g := range bytes.Split(buf, []byte("\n\n")) {
		switch {
		case bytes.Contains(g, []byte(tsArg)), bytes.Contains(g, []byte(svcArg)):
			live++
		case bytes.Contains(g, []byte("net/http.(*conn).serve")) && bytes.Contains(g, []byte("\nHavoc/")):
			live++
		}
	}
	return live
}

// WaitHandlers waits until at most n connection handlers of this teamserver are running.
func (f *Fixture) WaitHandlers(n int, d time.Duration) bool {
	deadline := time.Now().Add(d)
	sleep := 100 * time.Microsecond
	for {
		if f.LiveHandlers() <= n {
			return true
		}
		if time.Now().After(deadline) {
			return false
		}
		time.Sleep(sleep)
		if sleep < 5*time.Millisecond {
			sleep *= 2
		}
	}
}

// Quiesce waits until no connection handler of this teamserver is running.
func (f *Fixture) Quiesce(d time.Duration) bool { return f.WaitHandlers(0, d) }

// Release ends a case: every client and every server-side connection is closed, the
// reader goroutines are joined, and the teamserver is kept for the next case only if
// its goroutine count returns to the baseline (otherwise something of this case is
// still running or stuck inside it and a new one is started next time).
// dirty forces the discard.
func (f *Fixture) Release(dirty bool) {
	// one after the other: when several operators vanish at the same moment each
	// handler's farewell broadcast fails on the others' closed sockets, which (SendEvent
	// not unlocking after a failed write) parks the handlers on each other for good
	for _, c := range f.clients {
		c.Abort()
		if dirty || (c.Peer != nil && c.Peer.ClosedByServer()) {
			continue
		}
		deadline := time.Now().Add(time.Second)
		for time.Now().Before(deadline) {
			if id, _ := f.ClientByAddr(c.Local); id == "" {
				break
			}
			time.Sleep(100 * time.Microsecond)
		}
	}
	f.L.KillAll()
	for _, c := range f.clients {
		c.Join()
	}
	f.clients = nil
	q := dirty || f.Quiesce(3*time.Second)
	if !q && os.Getenv("VERIF_WSX_DEBUG") != "" {
		buf := make([]byte, 1<<20)
		n := runtime.Stack(buf, true)
		fmt.Fprintf(os.Stderr, "NOT QUIESCENT live=%d\n%s\n", f.LiveHandlers(), buf[:n])
	}
	if dirty || !q {
		f.drop()
		Obs("fixture-discarded")
	}
}

// drop: the teamserver is not used again.  Its listener and its sqlite handle are
// closed (db.DB has no Close; tsx.CloseTS reaches the handle); the goroutines parked in
// Start() never touch the database, and a handler that is stuck for good never runs again.
func (f *Fixture) drop() {
	f.L.KillAll()
	f.L.Close()
	tsx.CloseTS(f.TS)
	if cur == f {
		cur = nil
	}
}

// Discard drops the current teamserver unconditionally.
func Discard() {
	if cur != nil {
		cur.drop()
	}
}

// ClientByAddr finds the teamserver's client record of the websocket whose peer
// address is addr (Client.GlobalIP is set once before the record is stored).
func (f *Fixture) ClientByAddr(addr string) (id string, c *server.Client) {
	f.TS.Clients.Range(func(k, v any) bool {
		cl := v.(*server.Client)
		if cl.GlobalIP == addr {
			id, c = k.(string), cl
			return false
		}
		return true
	})
	return
}

// TryLockAll reports the ids of client records whose mutex cannot be taken although
// no write is in progress on their connection; it retries for a while so that a
// legitimate holder has time to finish.
func (f *Fixture) LeakedMutexes(grace time.Duration) []string {
	var out []string
	f.TS.Clients.Range(func(k, v any) bool {
		cl := v.(*server.Client)
		deadline := time.Now().Add(grace)
		for {
			if cl.Mutex.TryLock() {
				cl.Mutex.Unlock()
				return true
			}
			if time.Now().After(deadline) {
				// still held: by a write that is in progress on that connection (a legitimate
				// holder, however slow), or by nobody who will ever release it?
				if pc := f.L.Peer(cl.GlobalIP); pc != nil && pc.InWrite() {
					return true
				}
				out = append(out, k.(string))
				return true
			}
			time.Sleep(200 * time.Microsecond)
		}
	})
	return out
}

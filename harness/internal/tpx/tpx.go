// Package tpx adds a live third-party ("service") side to an agx.World: the Service block
// of the teamserver is set up the way (*Teamserver).Start() does it (teamserver.go:193-203,
// real websocket route, real authentication and dispatch), the engine is served on a
// loopback socket, and a small service script - shaped after havoc-py's service.py /
// a typical agent handler (Talon's handler.py) - speaks the service protocol over a real
// gorilla websocket: it registers agent types, announces sessions (AgentRegister), answers
// the agent requests the listener relays to it, and registers the sender of a relayed
// request the teamserver does not know yet.
//
// (The same script exists inside harness/c01/d_test.go, where it carries C01-specific
// answer modes; this package is the plain variant for checks that only need third-party
// STATE next to Demon sessions.)
package tpx

import (
	"encoding/base64"
	"encoding/json"
	"fmt"
	"net/http/httptest"
	"strings"
	"sync"
	"time"

	"Havoc/pkg/profile"
	"Havoc/pkg/service"

	"github.com/gorilla/websocket"

	"verifharness/internal/agx"
	"verifharness/internal/svcx"
	"verifharness/internal/tsx"
)

const (
	Endpoint = "svc"
	Password = "svcpw"
	// Tag prefixes every answer of the script to a relayed request: the agent must receive Tag + its own payload.
	Tag = "svc|"

	handleConnFrame = "service.(*Service).handleConnection"
	bound           = 60 * time.Second
)

// World is an agx.World whose teamserver has a Service block, served on a loopback socket.
type World struct {
	*agx.World
	srv *httptest.Server
}

// NewWorld builds the fixture.  Close it with (*World).Close AFTER every client has left.
func NewWorld() (*World, error) {
	prof := tsx.BasicProfile(map[string]string{"op": "pw"}, &profile.ServiceConfig{Endpoint: Endpoint, Password: Password})
	w, err := agx.NewWorld(prof)
	if err != nil {
		return nil, err
	}
	w.TS.Service = service.NewService(w.TS.Server.Engine)
	w.TS.Service.Teamserver = w.TS
	w.TS.Service.Data.ServerAgents = &w.TS.Agents
	w.TS.Service.Config = *prof.Config.Service
	w.TS.Service.Start()
	return &World{World: w, srv: httptest.NewServer(w.TS.Server.Engine)}, nil
}

// Close waits for the teamserver's goroutines of departed service connections, stops the
// socket and releases the world.
func (w *World) Close() {
	WaitGone()
	w.srv.Close()
	w.World.Close()
}

// WaitGone waits until no goroutine of the teamserver serves a service connection any more
// (ClientClose has run).  Synchronisation only; false = still there after 30 s.
func WaitGone() bool {
	dl := time.Now().Add(30 * time.Second)
	for svcx.CountGoroutines(handleConnFrame) > 0 {
		if time.Now().After(dl) {
			return false
		}
		time.Sleep(300 * time.Microsecond)
	}
	return true
}

type msg = map[string]map[string]any

// Client is one connected, authenticated service script.
type Client struct {
	conn *websocket.Conn
	wmu  sync.Mutex

	mu        sync.Mutex
	onUnknown map[string]any // RegisterInfo the script registers the sender of a relayed request with, when the teamserver does not know it
	rewrite   func(hdr map[string]any) map[string]any // how the script writes the header of that registration (nil: echoes the teamserver's)
	relayed   int
	replies   map[string]chan msg
	seq       int
	done      chan struct{}
}

// Connect dials the service endpoint and authenticates (service.go authenticate()).
func (w *World) Connect() (*Client, error) {
	d := websocket.Dialer{HandshakeTimeout: bound}
	conn, _, err := d.Dial("ws"+strings.TrimPrefix(w.srv.URL, "http")+"/"+Endpoint, nil)
	if err != nil {
		return nil, err
	}
	c := &Client{conn: conn, replies: map[string]chan msg{}, done: make(chan struct{})}
	if err := conn.WriteJSON(map[string]any{"Head": map[string]any{"Type": "Register"}, "Body": map[string]any{"Password": Password}}); err != nil {
		conn.Close()
		return nil, err
	}
	var auth msg
	conn.SetReadDeadline(time.Now().Add(bound))
	if err := conn.ReadJSON(&auth); err != nil {
		conn.Close()
		return nil, err
	}
	conn.SetReadDeadline(time.Time{})
	if ok, _ := auth["Body"]["Success"].(bool); !ok {
		conn.Close()
		return nil, fmt.Errorf("service authentication refused")
	}
	go c.reader()
	return c, nil
}

func (c *Client) send(v any) error {
	c.wmu.Lock()
	defer c.wmu.Unlock()
	return c.conn.WriteJSON(v)
}

func (c *Client) reader() {
	defer close(c.done)
	for {
		_, data, err := c.conn.ReadMessage()
		if err != nil {
			return
		}
		var m msg
		if json.Unmarshal(data, &m) != nil {
			continue
		}
		if rid, ok := m["Head"]["RequestID"].(string); ok {
			c.mu.Lock()
			ch := c.replies[rid]
			c.mu.Unlock()
			if ch != nil {
				ch <- m
			}
			continue
		}
		if m["Head"]["Type"] == "Agent" && m["Body"]["Type"] == "AgentResponse" {
			// agent.go SendResponse: the listener relays an agent request and waits for the answer.
			// "Agent" is the session the teamserver holds under the sender's id (null: none) - a handler
			// registers the sender when there is none (havoc-py: `if response["Agent"] == None: ... self.register(header, info)`)
			rid, _ := m["Body"]["RandID"].(string)
			b64, _ := m["Body"]["Response"].(string)
			raw, _ := base64.StdEncoding.DecodeString(b64)
			c.mu.Lock()
			c.relayed++
			info, rewrite := c.onUnknown, c.rewrite
			c.mu.Unlock()
			if m["Body"]["Agent"] == nil && info != nil {
				var hdr any = m["Body"]["AgentHeader"]
				if h, ok := hdr.(map[string]any); ok && rewrite != nil {
					hdr = rewrite(h)
				}
				c.send(map[string]any{"Head": map[string]any{"Type": "Agent"}, "Body": map[string]any{"Type": "AgentRegister",
					"AgentHeader": hdr, "RegisterInfo": info}})
			}
			c.send(map[string]any{"Head": map[string]any{"Type": "Agent"}, "Body": map[string]any{
				"Type": "AgentResponse", "RandID": rid, "Response": base64.StdEncoding.EncodeToString(append([]byte(Tag), raw...))}})
		}
	}
}

// RegisterType sends a RegisterAgent message shaped as havoc-py's AgentType.get_dict();
// the MagicValue string is Python's hex(magic).
func (c *Client) RegisterType(name string, magic uint32) error {
	return c.send(map[string]any{"Head": map[string]any{"Type": "RegisterAgent"}, "Body": map[string]any{"Agent": map[string]any{
		"Name": name, "MagicValue": fmt.Sprintf("0x%x", magic), "Author": "verif", "Description": "generated",
		"Formats": []any{map[string]any{"Name": "Exe", "Extension": "exe"}}, "SupportedOS": []any{"linux"},
		"Commands": []any{}, "BuildingConfig": map[string]any{"Sleep": "10"},
	}}})
}

// RegisterSession sends an AgentRegister message for agent id of the type with the given
// magic (header fields spelled as the teamserver spells them in a relayed request:
// agent.go SendResponse).
func (c *Client) RegisterSession(magic, id uint32, info map[string]any) error {
	return c.send(map[string]any{"Head": map[string]any{"Type": "Agent"}, "Body": map[string]any{"Type": "AgentRegister",
		"AgentHeader":  map[string]any{"Size": "64", "MagicValue": fmt.Sprintf("%x", magic), "AgentID": fmt.Sprintf("%08x", id)},
		"RegisterInfo": info,
	}})
}

// SendAgentRegister sends an AgentRegister message with exactly this header and RegisterInfo
// (whatever spelling / JSON type the caller chose for each field).
func (c *Client) SendAgentRegister(hdr, info map[string]any) error {
	return c.send(map[string]any{"Head": map[string]any{"Type": "Agent"}, "Body": map[string]any{"Type": "AgentRegister", "AgentHeader": hdr, "RegisterInfo": info}})
}

// OnUnknownWith is OnUnknown with the header of the registration rewritten by rewrite (it
// gets the header the teamserver sent: Size, MagicValue, AgentID as strings).
func (c *Client) OnUnknownWith(info map[string]any, rewrite func(hdr map[string]any) map[string]any) {
	c.mu.Lock()
	c.onUnknown, c.rewrite = info, rewrite
	c.mu.Unlock()
}

// OnUnknown sets the RegisterInfo the script registers an unknown sender of a relayed
// request with (nil: it only answers).
func (c *Client) OnUnknown(info map[string]any) {
	c.mu.Lock()
	c.onUnknown, c.rewrite = info, nil
	c.mu.Unlock()
}

// Relayed returns how many agent requests were relayed to this script so far.
func (c *Client) Relayed() int {
	c.mu.Lock()
	defer c.mu.Unlock()
	return c.relayed
}

// Barrier returns once the teamserver has dispatched everything this client sent before:
// routine() handles one message at a time, and an External-C2 registration under the name of
// the world's own listener "http" is refused (nothing changes) and answered.
func (c *Client) Barrier() error {
	c.mu.Lock()
	c.seq++
	rid := fmt.Sprintf("barrier-%d", c.seq)
	ch := make(chan msg, 1)
	c.replies[rid] = ch
	c.mu.Unlock()
	if err := c.send(map[string]any{"Head": map[string]any{"Type": "Listener", "RequestID": rid}, "Body": map[string]any{"Type": "ListenerAddExC2", "Name": "http", "Endpoint": "barrier"}}); err != nil {
		return err
	}
	select {
	case m := <-ch:
		if ex, _ := m["Body"]["ExC2"].(map[string]any); ex != nil {
			if ok, _ := ex["Success"].(bool); ok {
				return fmt.Errorf("barrier registration unexpectedly accepted")
			}
		}
		return nil
	case <-c.done:
		return fmt.Errorf("service connection closed")
	case <-time.After(bound):
		return fmt.Errorf("no reply to the barrier message within %v", bound)
	}
}

// Leave closes the connection: cleanly (close frame first) or abruptly (TCP close).
func (c *Client) Leave(abrupt bool) {
	if !abrupt {
		c.wmu.Lock()
		c.conn.WriteControl(websocket.CloseMessage, websocket.FormatCloseMessage(websocket.CloseNormalClosure, ""), time.Now().Add(time.Second))
		c.wmu.Unlock()
	}
	c.conn.Close()
	<-c.done
}

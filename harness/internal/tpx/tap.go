package tpx

import (
	"encoding/json"
	"fmt"
	"net/http"
	"net/http/httptest"
	"strings"
	"time"

	"Havoc/cmd/server"
	"Havoc/pkg/packager"

	"github.com/gorilla/websocket"
)

// Tap is one authenticated operator on a real websocket (SendEvent writes to
// client.Connection): it sees what EventBroadcast tells the operators, including the
// events that are not retained in EventsList (NewSession is "OneTime").
type Tap struct {
	id   string
	ts   *server.Teamserver
	srv  *httptest.Server
	peer *websocket.Conn // the operator's end
	conn *websocket.Conn // the teamserver's end
	in   chan packager.Package
	done chan struct{}
	seq  int
}

// markerEvent is a package type of no meaning to anybody: Sync sends it to the tap alone.
const markerEvent = 0x7e57

func NewTap(ts *server.Teamserver) (*Tap, error) {
	t := &Tap{id: "verif-tap", ts: ts, in: make(chan packager.Package, 4096), done: make(chan struct{})}
	accepted := make(chan *websocket.Conn, 1)
	up := websocket.Upgrader{}
	t.srv = httptest.NewServer(http.HandlerFunc(func(w http.ResponseWriter, r *http.Request) {
		if c, err := up.Upgrade(w, r, nil); err == nil {
			accepted <- c
		}
	}))
	peer, _, err := websocket.DefaultDialer.Dial("ws"+strings.TrimPrefix(t.srv.URL, "http"), nil)
	if err != nil {
		t.srv.Close()
		return nil, err
	}
	t.peer = peer
	select {
	case t.conn = <-accepted:
	case <-time.After(bound):
		peer.Close()
		t.srv.Close()
		return nil, fmt.Errorf("operator websocket not accepted")
	}
	go func() {
		defer close(t.done)
		for {
			_, raw, err := peer.ReadMessage()
			if err != nil {
				return
			}
			var pk packager.Package
			if json.Unmarshal(raw, &pk) == nil {
				t.in <- pk
			}
		}
	}()
	ts.Clients.Store(t.id, &server.Client{ClientID: t.id, Username: "tap", Connection: t.conn, Authenticated: true})
	return t, nil
}

// Sync returns every package the operator received since the previous Sync.  Call it when
// the teamserver is at rest (every broadcast of the step has been written: SendEvent is
// synchronous); a marker sent to this operator alone delimits the batch.
func (t *Tap) Sync() ([]packager.Package, error) {
	t.seq++
	var m packager.Package
	m.Head.Event = markerEvent
	m.Body.Info = map[string]interface{}{"marker": fmt.Sprint(t.seq)}
	if err := t.ts.SendEvent(t.id, m); err != nil {
		return nil, err
	}
	var out []packager.Package
	dl := time.After(bound)
	for {
		select {
		case pk := <-t.in:
			if pk.Head.Event == markerEvent {
				if fmt.Sprint(pk.Body.Info["marker"]) == fmt.Sprint(t.seq) {
					return out, nil
				}
				continue
			}
			out = append(out, pk)
		case <-t.done:
			return out, fmt.Errorf("operator websocket closed")
		case <-dl:
			return out, fmt.Errorf("marker not received within %v", bound)
		}
	}
}

func (t *Tap) Close() {
	t.ts.Clients.Delete(t.id)
	t.peer.Close()
	t.conn.Close()
	for {
		select {
		case <-t.in:
			continue
		case <-t.done:
		}
		break
	}
	t.srv.Close()
}

// Package tsx holds the teamserver fixtures shared by the checks: a recorder that
// implements agent.TeamServer, a builder for the real server.Teamserver, and the
// process-global resets (logger, loot root) every case performs.
package tsx

import (
	"fmt"
	"io"
	"os"
	"path/filepath"
	"sort"
	"strconv"
	"strings"
	"sync"

	"Havoc/cmd/server"
	"Havoc/pkg/agent"
	"Havoc/pkg/db"
	"Havoc/pkg/logger"
	"Havoc/pkg/logr"
	"Havoc/pkg/packager"
	"Havoc/pkg/profile"
)

var quietOnce sync.Once

// Quiet sends the teamserver's logger to nowhere (it is a process global).
func Quiet() {
	quietOnce.Do(func() {
		logger.LoggerInstance = logger.NewLogger(io.Discard)
		logger.LoggerInstance.ShowTime(false)
	})
	logger.SetStdOut(io.Discard)
}

// SetLoot points the process-global loot logger at root (created), never through
// logr.NewLogr (which RemoveAll's its argument).  Returns the agents directory.
func SetLoot(root string) string {
	agents := filepath.Join(root, "agents")
	os.MkdirAll(agents, 0o755)
	os.MkdirAll(filepath.Join(root, "listener"), 0o755)
	logr.LogrInstance = &logr.Logr{
		Path:         root,
		ServerPath:   filepath.Dir(root),
		AgentPath:    agents,
		ListenerPath: filepath.Join(root, "listener"),
		LogrSendText: func(string) {},
	}
	return agents
}

// ---------------------------------------------------------------------------- Recorder

type Event struct {
	Kind   string            `json:"kind"` // console died update linkadd linkremove add notify append broadcast python callbacksize mark listenererror
	Agent  string            `json:"agent,omitempty"`
	Other  string            `json:"other,omitempty"`
	Cmd    int               `json:"cmd,omitempty"`
	Out    map[string]string `json:"out,omitempty"`
	Client string            `json:"client,omitempty"`
}

// Recorder implements agent.TeamServer, keeps a session table and records every
// call that constitutes an "effect" of a callback.
type Recorder struct {
	mu        sync.Mutex
	Sessions  []*agent.Agent
	Events    []Event
	Logs      bool          // SendLogs()
	SvcMagics map[int]agent.ServiceAgentInterface
	PipeTmpl  string
}

func NewRecorder() *Recorder { return &Recorder{SvcMagics: map[int]agent.ServiceAgentInterface{}} }

func (r *Recorder) rec(e Event) {
	r.mu.Lock()
	r.Events = append(r.Events, e)
	r.mu.Unlock()
}

// Take returns and clears the recorded events.
func (r *Recorder) Take() []Event {
	r.mu.Lock()
	defer r.mu.Unlock()
	ev := r.Events
	r.Events = nil
	return ev
}

// Effects filters out bookkeeping calls that every accepted *request* (not callback)
// makes: last-call-in updates.
func Effects(ev []Event) []Event {
	var out []Event
	for _, e := range ev {
		if e.Kind == "lasttime" || e.Kind == "update-lastcall" {
			continue
		}
		out = append(out, e)
	}
	return out
}

func idOf(a *agent.Agent) int {
	v, _ := strconv.ParseInt(a.NameID, 16, 64)
	return int(v)
}

func (r *Recorder) AgentUpdate(a *agent.Agent) { r.rec(Event{Kind: "update", Agent: a.NameID}) }
func (r *Recorder) Died(a *agent.Agent) {
	a.Active = false
	r.rec(Event{Kind: "died", Agent: a.NameID})
}
func (r *Recorder) ParentOf(a *agent.Agent) (int, error) { return 0, fmt.Errorf("none") }
func (r *Recorder) LinksOf(a *agent.Agent) []int        { return nil }
func (r *Recorder) LinkRemove(p *agent.Agent, l *agent.Agent, upd bool) {
	r.rec(Event{Kind: "linkremove", Agent: p.NameID, Other: l.NameID})
	if upd {
		for i := range p.Pivots.Links {
			if p.Pivots.Links[i].NameID == l.NameID {
				p.Pivots.Links = append(p.Pivots.Links[:i], p.Pivots.Links[i+1:]...)
				break
			}
		}
	}
}
func (r *Recorder) LinkAdd(p *agent.Agent, l *agent.Agent) error {
	r.rec(Event{Kind: "linkadd", Agent: p.NameID, Other: l.NameID})
	return nil
}
func (r *Recorder) AgentHasDied(a *agent.Agent) bool { return !a.Active }
func (r *Recorder) AgentAdd(a *agent.Agent) []*agent.Agent {
	r.mu.Lock()
	r.Sessions = append(r.Sessions, a)
	r.mu.Unlock()
	if a != nil {
		r.rec(Event{Kind: "add", Agent: a.NameID})
	} else {
		r.rec(Event{Kind: "add", Agent: "<nil>"})
	}
	return r.Sessions
}
func (r *Recorder) PythonModuleCallback(client, agentID string, cmd int, out map[string]string) {
	r.rec(Event{Kind: "python", Agent: agentID, Cmd: cmd, Out: out, Client: client})
}
func (r *Recorder) AgentSendNotify(a *agent.Agent) {
	n := "<nil>"
	if a != nil {
		n = a.NameID
	}
	r.rec(Event{Kind: "notify", Agent: n})
}
func (r *Recorder) AgentCallbackSize(a *agent.Agent, i int) {
	r.rec(Event{Kind: "callbacksize", Agent: a.NameID, Cmd: i})
}
func (r *Recorder) AgentInstance(id int) *agent.Agent {
	r.mu.Lock()
	defer r.mu.Unlock()
	for _, a := range r.Sessions {
		if a != nil && idOf(a) == id {
			return a
		}
	}
	return nil
}
func (r *Recorder) AgentLastTimeCalled(id, last string, sleep, jitter int, kill int64, wh int32) {
	r.rec(Event{Kind: "lasttime", Agent: id})
}
func (r *Recorder) AgentExist(id int) bool { return r.AgentInstance(id) != nil }
func (r *Recorder) AgentConsole(id string, cmd int, out map[string]string) {
	cp := map[string]string{}
	for k, v := range out {
		cp[k] = v
	}
	r.rec(Event{Kind: "console", Agent: id, Cmd: cmd, Out: cp})
}
func (r *Recorder) EventAppend(e packager.Package) []packager.Package {
	r.rec(Event{Kind: "append", Cmd: e.Head.Event})
	return nil
}
func (r *Recorder) EventBroadcast(except string, pk packager.Package) {
	r.rec(Event{Kind: "broadcast", Cmd: pk.Head.Event, Client: except})
}
func (r *Recorder) EventNewDemon(a *agent.Agent) packager.Package { return packager.Package{} }
func (r *Recorder) EventAgentMark(id, mark string)                { r.rec(Event{Kind: "mark", Agent: id, Other: mark}) }
func (r *Recorder) EventListenerError(name string, err error) {
	r.rec(Event{Kind: "listenererror", Other: name})
}
func (r *Recorder) ListenerAdd(from string, typ int, cfg any) packager.Package {
	return packager.Package{}
}
func (r *Recorder) ServiceAgent(magic int) agent.ServiceAgentInterface { return r.SvcMagics[magic] }
func (r *Recorder) ServiceAgentExist(magic int) bool {
	_, ok := r.SvcMagics[magic]
	return ok
}
func (r *Recorder) GetDotNetPipeTemplate() string {
	if r.PipeTmpl != "" {
		return r.PipeTmpl
	}
	return "verifpipe"
}
func (r *Recorder) SendLogs() bool { return r.Logs }

var _ agent.TeamServer = (*Recorder)(nil)

// ---------------------------------------------------------------------------- real teamserver

// BasicProfile returns a minimal profile with the given operators (name -> password).
func BasicProfile(users map[string]string, svc *profile.ServiceConfig) *profile.Profile {
	p := profile.NewProfile()
	p.Config.Server = &profile.ServerProfile{Host: "127.0.0.1", Port: 0}
	p.Config.Demon = &profile.Demon{Sleep: 2}
	p.Config.Operators = &profile.OperatorsBlock{}
	names := make([]string, 0, len(users))
	for n := range users {
		names = append(names, n)
	}
	sort.Strings(names)
	for _, n := range names {
		p.Config.Operators.Users = append(p.Config.Operators.Users, profile.UsersBlock{Name: n, Password: users[n]})
	}
	p.Config.Service = svc
	return p
}

// NewTS builds a real Teamserver object on a private sqlite file under dir WITHOUT
// calling Start(): the agent/link/listener/event methods all work on it directly.
// dir must exist; data/ is created.  The loot root is set to dir/loot.
func NewTS(dir string, prof *profile.Profile) (*server.Teamserver, error) {
	Quiet()
	os.MkdirAll(filepath.Join(dir, "data"), 0o755)
	SetLoot(filepath.Join(dir, "loot"))
	d, err := db.DatabaseNew(filepath.Join(dir, "data", "teamserver.db"))
	if err != nil {
		return nil, err
	}
	ts := &server.Teamserver{DB: d}
	if prof == nil {
		prof = BasicProfile(map[string]string{"op": "pw"}, nil)
	}
	ts.Profile = prof
	ts.Listeners = []*server.Listener{}
	return ts, nil
}

// DBPath returns the sqlite file used by NewTS for dir.
func DBPath(dir string) string { return filepath.Join(dir, "data", "teamserver.db") }

// ListTree returns "relpath\tsize" (or "relpath/\tdir") for everything under root, sorted.
func ListTree(root string) []string {
	var out []string
	filepath.Walk(root, func(p string, info os.FileInfo, err error) error {
		if err != nil || p == root {
			return nil
		}
		rel, _ := filepath.Rel(root, p)
		if info.IsDir() {
			out = append(out, rel+"/\tdir")
		} else {
			out = append(out, fmt.Sprintf("%s\t%d", rel, info.Size()))
		}
		return nil
	})
	sort.Strings(out)
	return out
}

// TreeString joins ListTree for comparison.
func TreeString(root string) string { return strings.Join(ListTree(root), "\n") }

package tsx

import (
	"database/sql"
	"reflect"
	"unsafe"

	"Havoc/cmd/server"
	"Havoc/pkg/db"
)

// CloseDB closes the sqlite handle inside a db.DB.  The type has no Close method (the
// teamserver keeps its database open for its whole life); a harness that builds
// thousands of teamservers per process would otherwise leak a connection and two file
// descriptors per case.  Harness-only: reaches the unexported *sql.DB through reflect.
func CloseDB(d *db.DB) {
	if d == nil {
		return
	}
	f := reflect.ValueOf(d).Elem().FieldByName("db")
	if !f.IsValid() || f.IsNil() {
		return
	}
	(*sql.DB)(unsafe.Pointer(f.Pointer())).Close()
}

// CloseTS releases what a teamserver built by NewTS holds: the database handle and the
// files of downloads that are still open.
func CloseTS(ts *server.Teamserver) {
	if ts == nil {
		return
	}
	for _, a := range ts.Agents.Agents {
		if a == nil {
			continue
		}
		for _, d := range a.Downloads {
			if d != nil && d.File != nil {
				d.File.Close()
			}
		}
	}
	CloseDB(ts.DB)
}

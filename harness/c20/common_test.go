package c20

import (
	"fmt"
	"math/big"
	"reflect"
	"sort"
	"strings"
	"sync/atomic"
	"unicode"

	hcl "Havoc/pkg/profile/yaotl"
	"Havoc/pkg/profile/yaotl/hclsyntax"
	"Havoc/pkg/profile/yaotl/hclwrite"

	"github.com/zclconf/go-cty/cty"
	"github.com/zclconf/go-cty/cty/function"
	"github.com/zclconf/go-cty/cty/function/stdlib"
	"pgregory.net/rapid"

	"verifharness/internal/core"
)

var startPos = hcl.Pos{Line: 1, Column: 1, Byte: 0}

// tk is one token of the native scanner with its byte range.
type tk struct {
	Type       hclsyntax.TokenType
	Bytes      string
	Start, End int
}

func (t tk) String() string { return fmt.Sprintf("%s %q", t.Type, t.Bytes) }

// lex returns the scanner's tokens; ok=false when the scanner reported errors.
func lex(src []byte) ([]tk, bool) {
	toks, diags := hclsyntax.LexConfig(src, "", startPos)
	out := make([]tk, len(toks))
	for i, t := range toks {
		out[i] = tk{Type: t.Type, Bytes: string(t.Bytes), Start: t.Range.Start.Byte, End: t.Range.End.Byte}
	}
	return out, !diags.HasErrors()
}

// toksIn: tokens lying inside [start,end), EOF excluded.
func toksIn(toks []tk, start, end int) []tk {
	// tokens are in source order and do not overlap: those inside [start,end) are one
	// run, found by binary search (bodies of thousands of items are compared item by item)
	var out []tk
	for i := tokLowerBound(toks, start); i < len(toks) && toks[i].Start < end; i++ {
		t := toks[i]
		if t.Type == hclsyntax.TokenEOF {
			continue
		}
		if t.Start >= start && t.End <= end {
			out = append(out, t)
		}
	}
	return out
}

// sameToks compares (type, bytes) sequences; returns the first differing index or -1.
func sameToks(a, b []tk) int {
	for i := 0; i < len(a) && i < len(b); i++ {
		if a[i].Type != b[i].Type || a[i].Bytes != b[i].Bytes {
			return i
		}
	}
	if len(a) != len(b) {
		if len(a) < len(b) {
			return len(a)
		}
		return len(b)
	}
	return -1
}

func tokAt(t []tk, i int) string {
	if i < 0 || i >= len(t) {
		return "<end>"
	}
	return t[i].String()
}

// comments returns the comment tokens in order.
func comments(toks []tk) []tk {
	var out []tk
	for _, t := range toks {
		if t.Type == hclsyntax.TokenComment {
			out = append(out, t)
		}
	}
	return out
}

// isSubseq: every element of small appears in big, in order.
func isSubseq(small, big []string) (bool, string) {
	j := 0
	for _, s := range small {
		for j < len(big) && big[j] != s {
			j++
		}
		if j == len(big) {
			return false, s
		}
		j++
	}
	return true, ""
}

// ---------------------------------------------------------------- AST dump (ranges ignored)

var (
	rangeT  = reflect.TypeOf(hcl.Range{})
	posT    = reflect.TypeOf(hcl.Pos{})
	ctyValT = reflect.TypeOf(cty.Value{})
)

func dumpAST(v interface{}) string {
	var b strings.Builder
	dumpVal(&b, reflect.ValueOf(v), 0)
	return b.String()
}

func dumpVal(b *strings.Builder, v reflect.Value, depth int) {
	if depth > 200 {
		b.WriteString("<deep>")
		return
	}
	if !v.IsValid() {
		b.WriteString("<nil>")
		return
	}
	if v.Type() == rangeT || v.Type() == posT {
		return
	}
	if v.Type() == ctyValT {
		if v.CanInterface() {
			fmt.Fprintf(b, "%#v", v.Interface().(cty.Value))
		}
		return
	}
	switch v.Kind() {
	case reflect.Ptr, reflect.Interface:
		if v.IsNil() {
			b.WriteString("nil")
			return
		}
		if v.Kind() == reflect.Interface {
			b.WriteString(v.Elem().Type().String() + ":")
		}
		dumpVal(b, v.Elem(), depth+1)
	case reflect.Struct:
		b.WriteString(v.Type().Name() + "{")
		for i := 0; i < v.NumField(); i++ {
			f := v.Type().Field(i)
			if f.PkgPath != "" { // unexported
				continue
			}
			if f.Type == rangeT || f.Type == posT || strings.HasSuffix(f.Name, "Range") {
				continue
			}
			b.WriteString(f.Name + "=")
			dumpVal(b, v.Field(i), depth+1)
			b.WriteString(";")
		}
		b.WriteString("}")
	case reflect.Slice, reflect.Array:
		b.WriteString("[")
		for i := 0; i < v.Len(); i++ {
			dumpVal(b, v.Index(i), depth+1)
			b.WriteString(",")
		}
		b.WriteString("]")
	case reflect.Map:
		keys := v.MapKeys()
		sort.Slice(keys, func(i, j int) bool { return fmt.Sprint(keys[i].Interface()) < fmt.Sprint(keys[j].Interface()) })
		b.WriteString("map{")
		for _, k := range keys {
			fmt.Fprintf(b, "%v:", k.Interface())
			dumpVal(b, v.MapIndex(k), depth+1)
			b.WriteString(",")
		}
		b.WriteString("}")
	case reflect.Func:
		b.WriteString("<func>")
	default:
		if v.CanInterface() {
			fmt.Fprintf(b, "%#v", v.Interface())
		} else {
			fmt.Fprintf(b, "%v", v)
		}
	}
}

// ---------------------------------------------------------------- evaluation

func evalContext() *hcl.EvalContext {
	obj := cty.ObjectVal(map[string]cty.Value{
		"a": cty.NumberIntVal(1), "foo": cty.StringVal("foo"), "bar_1": cty.True,
		"with-dash": cty.ListVal([]cty.Value{cty.StringVal("x"), cty.StringVal("y")}),
		"é":         cty.MapVal(map[string]cty.Value{"k": cty.NumberIntVal(2)}),
		"_x":        cty.NullVal(cty.String), "Name": cty.StringVal("N"), "k8s": cty.NumberIntVal(8),
		"in_": cty.EmptyTupleVal, "for_each": cty.EmptyObjectVal,
	})
	ident := function.New(&function.Spec{
		VarParam: &function.Parameter{Name: "args", Type: cty.DynamicPseudoType, AllowNull: true, AllowUnknown: true, AllowDynamicType: true},
		Type:     function.StaticReturnType(cty.DynamicPseudoType),
		Impl: func(args []cty.Value, retType cty.Type) (cty.Value, error) {
			if len(args) == 0 {
				return cty.NullVal(cty.DynamicPseudoType), nil
			}
			return args[0], nil
		},
	})
	return &hcl.EvalContext{
		Variables: map[string]cty.Value{
			"var": obj, "local": obj,
			"x":    cty.TupleVal([]cty.Value{obj, cty.NumberIntVal(7), cty.StringVal("s")}),
			"each": cty.ObjectVal(map[string]cty.Value{"key": cty.StringVal("k"), "value": obj}),
			"a-b":  cty.NumberIntVal(3), "ü": cty.ListVal([]cty.Value{cty.NumberIntVal(1), cty.NumberIntVal(2)}),
		},
		Functions: map[string]function.Function{"upper": stdlib.UpperFunc, "min": stdlib.MinFunc, "concat": stdlib.ConcatFunc, "f": ident},
	}
}

type attrEval struct {
	path string
	val  cty.Value
	err  bool
	pan  bool
}

func evalAttr(e hcl.Expression, ctx *hcl.EvalContext) (r attrEval) {
	defer func() {
		if x := recover(); x != nil {
			r.pan = true
		}
	}()
	v, d := e.Value(ctx)
	r.val, r.err = v, d.HasErrors()
	return
}

// evalAll evaluates every attribute of the body tree, in source order.
func evalAll(body *hclsyntax.Body, ctx *hcl.EvalContext, path string, out *[]attrEval) {
	names := make([]string, 0, len(body.Attributes))
	for n := range body.Attributes {
		names = append(names, n)
	}
	sort.Strings(names)
	for _, n := range names {
		r := evalAttr(body.Attributes[n].Expr, ctx)
		r.path = path + "/" + n
		*out = append(*out, r)
	}
	for i, b := range body.Blocks {
		evalAll(b.Body, ctx, fmt.Sprintf("%s/%s[%d]", path, b.Type, i), out)
	}
}

// hasNonPrintable: a rune the generator of literals writes as a \u / \U escape
// (unicode.IsPrint false, and not one of \n \r \t which have their own escapes).
func hasNonPrintable(s string) bool {
	for _, r := range s {
		if r == '\n' || r == '\r' || r == '\t' {
			continue
		}
		if !unicode.IsPrint(r) {
			return true
		}
	}
	return false
}

func clip(s string, n int) string {
	if len(s) > n {
		return s[:n] + "...[clipped]"
	}
	return s
}

// sameValue: got (what the written text evaluates to, converted to want's type)
// is the value want that was handed to the writer.  Numbers are compared with
// big.Float.Cmp at want's own precision: a number made from a float64 is
// written with the shortest digits that identify that float64, so it reads back
// (at the parser's 512 bits) as a number that rounds to it.
func sameValue(got, want cty.Value) bool {
	if got.RawEquals(want) {
		return true
	}
	if got.IsNull() || want.IsNull() || !got.IsKnown() || !want.IsKnown() {
		return false
	}
	gt, wt := got.Type(), want.Type()
	switch {
	case gt == cty.Number && wt == cty.Number:
		g, w := got.AsBigFloat(), want.AsBigFloat()
		if w.Prec() >= g.Prec() {
			return g.Cmp(w) == 0
		}
		r := new(big.Float).SetPrec(w.Prec()).SetMode(big.ToNearestEven).Set(g)
		return r.Cmp(w) == 0
	case (gt.IsListType() && wt.IsListType()) || (gt.IsTupleType() && wt.IsTupleType()):
		gs, ws := got.AsValueSlice(), want.AsValueSlice()
		if len(gs) != len(ws) {
			return false
		}
		for i := range gs {
			if !sameValue(gs[i], ws[i]) {
				return false
			}
		}
		return true
	case (gt.IsMapType() && wt.IsMapType()) || (gt.IsObjectType() && wt.IsObjectType()):
		gm, wm := got.AsValueMap(), want.AsValueMap()
		if len(gm) != len(wm) {
			return false
		}
		for k, wv := range wm {
			gv, ok := gm[k]
			if !ok || !sameValue(gv, wv) {
				return false
			}
		}
		return true
	}
	return false
}

// ---------------------------------------------------------------- results stay what they were

// kept is one []byte handed out by the library, retained exactly as returned,
// with a string copy taken at that moment.
type kept struct {
	from string
	b    []byte
	s    string
}

// keeper retains every serialisation result of a case.  After each later library
// serialisation, and at the end of the case, every retained slice must still equal
// its copy.  The last result of the previous case of this process stays retained
// into the next case (buffers may be shared across calls of a whole process).
type keeper struct {
	items []kept
	viol  *core.Violation
}

var (
	prevCaseResult *kept
	retainedTotal  int64
)

func newKeeper() *keeper {
	k := &keeper{}
	if prevCaseResult == nil {
		// first case of the process (also: a replay): a fixed serialisation stands in
		// for the previous case, so that a single case reproduces on its own
		b := hclwrite.Format([]byte("warm_up = 1\n"))
		prevCaseResult = &kept{from: "Format", b: b, s: string(b)}
	}
	if prevCaseResult != nil {
		it := *prevCaseResult
		it.from += "@previous-case"
		k.items = append(k.items, it)
	}
	k.check("case-start")
	return k
}

func (k *keeper) check(later string) {
	if k.viol != nil {
		return
	}
	for _, it := range k.items {
		if string(it.b) != it.s {
			k.viol = core.V("result-changed-after-later-call|"+it.from+"|"+later,
				"the []byte returned by %s changed when %s was called later\nit was:\n%s\nit is now:\n%s", it.from, later, clip(it.s, 1500), clip(string(it.b), 1500))
			return
		}
	}
}

// keep retains b (returned by entry point from) and returns it unchanged.
func (k *keeper) keep(from string, b []byte) []byte {
	k.check(from)
	k.items = append(k.items, kept{from: from, b: b, s: string(b)})
	atomic.AddInt64(&retainedTotal, 1)
	return b
}

// finish is the end-of-case check; v is the violation of the case's own oracle, if any.
func (k *keeper) finish(v *core.Violation) *core.Violation {
	k.check("end-of-case")
	if n := len(k.items); n > 0 {
		last := k.items[n-1]
		if prevCaseResult != nil && n == 1 {
			last.from = prevCaseResult.from
		}
		prevCaseResult = &last
	}
	core.SetExtra("c20_retained_results", atomic.LoadInt64(&retainedTotal))
	if k.viol != nil {
		return k.viol
	}
	return v
}

// ---------------------------------------------------------------- the caller's own buffers are the caller's

// What the caller does with the []byte it passed to a parsing entry point once the
// call has returned (the mirror image of the keeper: there the library's results,
// here the caller's inputs).
const (
	reuseNone  = ""                   // leaves it alone (the buffer is never written again)
	reuseFill  = "fill-0xAA"          // a pooled buffer handed back and scrubbed
	reuseOther = "other-source-bytes" // the bytes of a different source, same length
	reuseNext  = "next-source-parsed" // truncated, the next source read into the same backing array and parsed
)

var reuseModes = []string{reuseFill, reuseOther, reuseNext}

// genReuse: in about half of the cases the caller reuses its buffers.
func genReuse(t *rapid.T) string {
	if !rapid.Bool().Draw(t, "caller-reuses-input-buffer") {
		return reuseNone
	}
	return rapid.SampledFrom(reuseModes).Draw(t, "reuse-mode")
}

func reuseLabel(mode string) string {
	if mode == reuseNone {
		return "input:caller-leaves-buffer-alone"
	}
	return "input:caller-reuses-buffer|" + mode
}

// callerBuf is a []byte which the harness, as the caller, hands to a parsing entry
// point.  It is the caller's memory: once the call has returned the caller may use it
// for whatever comes next, and nothing obtained from the call may depend on it
// (ranges in diagnostics are positions and stay what they were).  The oracles work on
// the text the buffer was filled from, never on the buffer.
type callerBuf struct {
	mode  string
	b     []byte // what the library is given
	other string // what the caller has in hand next
}

const reuseFallbackConfig = "/* reused */ next = [1, \"two\"]\nblk \"l\" {\n  k = v # c\n}\n"
const reuseFallbackExpr = "[1, \"two\", three.four[5]]"

func newCallerBuf(mode, text, other, fallback string) *callerBuf {
	if mode == reuseNone {
		return &callerBuf{b: []byte(text)}
	}
	if other == "" || other == text {
		other = fallback
	}
	n := len(text)
	if mode == reuseNext && len(other) > n {
		n = len(other)
	}
	back := make([]byte, len(text), n)
	copy(back, text)
	return &callerBuf{mode: mode, b: back, other: other}
}

// reuse is the caller using its buffer again; next is what it does with the next
// source in mode reuseNext (it gets the same backing array, holding the next source).
func (c *callerBuf) reuse(next func(src []byte)) {
	switch c.mode {
	case reuseFill:
		for i := range c.b {
			c.b[i] = 0xAA
		}
	case reuseOther:
		for i := range c.b {
			c.b[i] = c.other[i%len(c.other)]
		}
	case reuseNext:
		nb := append(c.b[:0], c.other...) // capacity was reserved: same backing array
		if next != nil {
			next(nb)
		}
	}
	c.mode = reuseNone // once
}

package c20

// C20(b): P3 — sequences of edits applied to the writer tree and to a model.
//
// The model is built from hclsyntax's parse of the source (structure, token ranges);
// every edit updates it; the writer's output (File.Bytes(), which formats) is
// re-parsed and must show exactly the model:
//   - it parses without errors;
//   - every body has the model's items in the model's order (surviving original
//     items in source order, then appended ones in creation order);
//   - an untouched attribute has the same tokens (type, bytes) from its name to the
//     end of its expression; an untouched block header has the same tokens;
//   - an attribute set from a value evaluates to that value (after conversion to
//     the value's type: literals of collection types are documented to come back
//     as tuples/objects), one set from a traversal is that traversal, one set from
//     raw tokens has those tokens;
//   - block types and labels are the model's;
//   - the comment tokens of the output are, in order, a supersequence of the
//     original comments that lie outside every removed/replaced region and a
//     subsequence of all original comments.

import (
	"fmt"
	"regexp"
	"sort"
	"strings"
	"sync/atomic"
	"testing"

	hcl "Havoc/pkg/profile/yaotl"
	"Havoc/pkg/profile/yaotl/hclsyntax"
	"Havoc/pkg/profile/yaotl/hclwrite"

	"github.com/zclconf/go-cty/cty"
	"github.com/zclconf/go-cty/cty/convert"
	"pgregory.net/rapid"

	"verifharness/internal/cfggen"
	"verifharness/internal/core"
)

type TravStep struct {
	Attr string  `json:"attr,omitempty"`
	Idx  *int    `json:"idx,omitempty"`
	Key  *string `json:"key,omitempty"`
	Num  *string `json:"num,omitempty"` // numeric index key given as number text (see cfggen.NumberOf)
}

type Edit struct {
	Path   []int       `json:"path,omitempty"` // nested block indices (modulo the number of blocks at each level)
	Op     string      `json:"op"`             // set-value set-traversal set-raw remove-attr append-block remove-block set-labels remove-first-item bulk-append
	Name   int         `json:"name"`           // >=0: existing attribute number (modulo), <0: a new name
	Type   cfggen.Type `json:"type,omitempty"`
	Val    cfggen.Val  `json:"val,omitempty"`
	Root   string      `json:"root,omitempty"`
	Steps  []TravStep  `json:"steps,omitempty"`
	Raw    string      `json:"raw,omitempty"`
	BType  string      `json:"btype,omitempty"`
	Labels []string    `json:"labels,omitempty"`
	Block  int         `json:"block,omitempty"`
	// bulk-append: N items appended through the API, one call each: SetAttributeValue of
	// a new name, every BlockEvery-th item AppendNewBlock (see scale_test.go)
	N          int `json:"n,omitempty"`
	BlockEvery int `json:"block_every,omitempty"`
}

type CaseB struct {
	Origin string   `json:"origin"`
	Src    string   `json:"src"`
	Edits  []Edit   `json:"edits"`
	Feat   []string `json:"feat,omitempty"`
	// Reuse: what the caller does with the []byte it passed to the parsers, once, before
	// edit number ReuseAt (modulo #edits+1; #edits = after the last edit, before the
	// final serialisation); Over is the caller's next source
	Reuse   string `json:"reuse,omitempty"`
	ReuseAt int    `json:"reuse_at,omitempty"`
	Over    string `json:"over,omitempty"`
	// MutateArgs: after SetAttributeRaw / SetAttributeTraversal / AppendNewBlock /
	// SetLabels returned, the caller overwrites the elements of the Tokens, Traversal and
	// label slices it passed
	MutateArgs bool `json:"mutate_args,omitempty"`
	// Bulk: a large run of items written in front of / behind Src (scale cases; see scale_test.go)
	Bulk *Bulk `json:"bulk,omitempty"`
}

func (c *CaseB) source() string { return withBulk(c.Src, c.Bulk) }

// manyEdits: above this number of edits the file is serialised at checkpoints only
// (after the first and the last four edits and after the middle one).
const manyEdits = 16

func serialiseAfter(i, n int) bool {
	return n <= manyEdits || i < 4 || i >= n-4 || i == n/2
}

// genScaleB: the scale dimension of (b).  what = items-in-source: a body of N items is
// parsed and 3-8 edits are aimed across it; items-via-api: 3-8 edits and one
// bulk-append of N items before, between or behind them; edits: a history of N edits.
func genScaleB(t *rapid.T, c *CaseB) {
	what := rapid.SampledFrom([]string{"items-in-source", "items-in-source", "items-via-api", "items-via-api", "edits"}).Draw(t, "scale-what")
	if what == "edits" {
		// one edit costs a pass over its body: the pool is cut at 1025 (thorough: 2049) edits per history
		n := genScaleCount(t, "scale-edits", 1025, 2049)
		c.Edits = nil
		for i := 0; i < n; i++ {
			c.Edits = append(c.Edits, genEdit(t))
		}
		return
	}
	var path []int
	n, ne := 0, rapid.IntRange(3, 8).Draw(t, "nedits")
	bulkAt := -1
	var bulk Edit
	if what == "items-in-source" {
		bl := &Bulk{N: genScaleCount(t, "scale-items", 2049, 8193), BlockEvery: genBlockEvery(t), Nest: rapid.SampledFrom([]int{0, 0, 1, 2}).Draw(t, "bulk-nest")}
		bl.After = bl.Nest == 0 && rapid.Bool().Draw(t, "bulk-after")
		c.Bulk = bl
		n = bl.N
		for i := 0; i < bl.Nest; i++ {
			path = append(path, 0) // the wrapping block is the first block of its body
		}
	} else {
		// every append re-reads the tokens of its body (Body.startNewLine), N appends
		// are quadratic: the pool is cut at 513 (thorough: 2049) items appended through the API
		n = genScaleCount(t, "scale-items", 513, 2049)
		np := rapid.IntRange(0, 2).Draw(t, "pathlen")
		for i := 0; i < np; i++ {
			path = append(path, rapid.IntRange(0, 3).Draw(t, "pathidx"))
		}
		bulk = Edit{Op: "bulk-append", Path: path, N: n, BlockEvery: genBlockEvery(t)}
		bulkAt = rapid.SampledFrom([]int{0, ne / 2, ne}).Draw(t, "bulk-at") // before / in the middle of / behind the edits
	}
	c.Edits = nil
	for i := 0; i <= ne; i++ {
		if i == bulkAt {
			c.Edits = append(c.Edits, bulk)
		}
		if i == ne {
			break
		}
		e := genEdit(t)
		if rapid.IntRange(0, 3).Draw(t, "aimed") > 0 {
			// aimed at the large body, at names across it; half of these are the
			// attribute operations (set, remove, set again what was removed)
			e.Path = path
			e.Name = aimedName(t, n)
			if rapid.Bool().Draw(t, "attribute-op") {
				switch rapid.SampledFrom([]string{"set-value", "remove-attr", "remove-attr", "set-again"}).Draw(t, "attr-op") {
				case "set-value":
					if e.Op != "set-value" && e.Op != "set-raw" && e.Op != "set-traversal" {
						e = Edit{Op: "set-raw", Path: path, Name: e.Name, Raw: rapid.SampledFrom(rawExprs).Draw(t, "raw")}
					}
				case "remove-attr":
					e = Edit{Op: "remove-attr", Path: path, Name: e.Name}
				default:
					e = Edit{Op: "set-raw", Path: path, Name: 4, Raw: rapid.SampledFrom(rawExprs).Draw(t, "raw")}
				}
			}
		}
		c.Edits = append(c.Edits, e)
	}
}

var rawExprs = []string{"1 + 2", "foo(bar, 1)", "[1, 2, x]", "a.b[0]", "\"s-${v}\"", "!x", "{ k = 1 }", "c ? 1 : 2"}
var newLabels = []string{"n", "new label", "é", "", "q\"uote", "back\\slash", "${x}", "tab\t", "ctl\x01"}

func genEdit(t *rapid.T) Edit {
	var e Edit
	np := rapid.IntRange(0, 2).Draw(t, "pathlen")
	for i := 0; i < np; i++ {
		e.Path = append(e.Path, rapid.IntRange(0, 3).Draw(t, "pathidx"))
	}
	e.Op = rapid.SampledFrom([]string{"set-value", "set-value", "set-traversal", "set-raw", "remove-attr", "remove-attr", "append-block", "remove-block", "set-labels", "remove-first-item", "remove-first-item"}).Draw(t, "op")
	e.Name = rapid.IntRange(-2, 4).Draw(t, "name")
	switch e.Op {
	case "set-value":
		if rapid.Bool().Draw(t, "anyval") {
			e.Type = cfggen.Type{K: "any"}
		} else {
			e.Type = cfggen.Type{K: "string"}
			switch rapid.IntRange(0, 5).Draw(t, "vkind") {
			case 0:
				e.Type = cfggen.Type{K: "number"}
			case 1:
				e.Type = cfggen.Type{K: "bool"}
			case 2:
				el := cfggen.Type{K: "string"}
				e.Type = cfggen.Type{K: "list", E: &el}
			case 3:
				el := cfggen.Type{K: "number"}
				e.Type = cfggen.Type{K: "map", E: &el}
			case 4:
				el := cfggen.Type{K: "string"}
				e.Type = cfggen.Type{K: "set", E: &el}
			}
		}
		e.Val = cfggen.WidenNumbers(t, cfggen.GenVal(t, e.Type), e.Type)
		if e.Type.K == "string" && rapid.IntRange(0, 3).Draw(t, "rawstring") == 0 {
			e.Val = cfggen.Str(rapid.StringN(0, 6, 24).Draw(t, "string"))
		}
	case "set-traversal":
		e.Root = rapid.SampledFrom([]string{"var", "local", "a-b", "é"}).Draw(t, "root")
		n := rapid.IntRange(0, 3).Draw(t, "nsteps")
		for i := 0; i < n; i++ {
			switch rapid.IntRange(0, 3).Draw(t, "stepkind") {
			case 3:
				n := strings.TrimPrefix(cfggen.GenVal(t, cfggen.Type{K: "number"}).S, "-") // a negative key is not a literal in the syntax
				e.Steps = append(e.Steps, TravStep{Num: &n})
			case 0:
				e.Steps = append(e.Steps, TravStep{Attr: rapid.SampledFrom([]string{"a", "foo", "with-dash", "é"}).Draw(t, "attr")})
			case 1:
				i := rapid.IntRange(0, 12).Draw(t, "idx")
				e.Steps = append(e.Steps, TravStep{Idx: &i})
			default:
				k := rapid.SampledFrom([]string{"k", "a b", "é", "x.y", "q\"", ""}).Draw(t, "key")
				e.Steps = append(e.Steps, TravStep{Key: &k})
			}
		}
	case "set-raw":
		e.Raw = rapid.SampledFrom(rawExprs).Draw(t, "raw")
	case "append-block":
		e.BType = rapid.SampledFrom([]string{"nb", "new-block", "ñ"}).Draw(t, "btype")
		n := rapid.IntRange(0, 2).Draw(t, "nlabels")
		for i := 0; i < n; i++ {
			e.Labels = append(e.Labels, rapid.SampledFrom(newLabels).Draw(t, "label"))
		}
	case "remove-block":
		e.Block = rapid.IntRange(0, 3).Draw(t, "block")
	case "set-labels":
		e.Block = rapid.IntRange(0, 3).Draw(t, "block")
		n := rapid.IntRange(0, 2).Draw(t, "nlabels")
		for i := 0; i < n; i++ {
			e.Labels = append(e.Labels, rapid.SampledFrom(newLabels).Draw(t, "label"))
		}
	}
	return e
}

func genB(t *rapid.T) CaseB {
	src, origin, feat := genSource(t)
	c := CaseB{Origin: origin, Src: src, Feat: feat}
	n := rapid.IntRange(1, 5).Draw(t, "nedits")
	for i := 0; i < n; i++ {
		c.Edits = append(c.Edits, genEdit(t))
	}
	if oneIn(t, "scale", scaleShareB()) {
		genScaleB(t, &c)
		n = len(c.Edits)
	}
	c.Reuse = genReuse(t)
	if c.Reuse != reuseNone {
		c.ReuseAt = rapid.IntRange(0, n).Draw(t, "reuse-at")
	}
	if c.Reuse == reuseOther || c.Reuse == reuseNext {
		c.Over, _, _ = genSource(t)
	}
	c.MutateArgs = rapid.Bool().Draw(t, "caller-mutates-arguments")
	return c
}

// ---------------------------------------------------------------- model

type mAttr struct {
	name   string
	kind   string // orig value traversal raw
	toks   []tk   // orig: tokens name..expr end
	val    cty.Value
	trav   hcl.Traversal
	raw    []tk
	exprLo int // orig: expression range
	exprHi int
}

type mBlock struct {
	typ     string
	labels  []string
	header  []tk // orig, labels unchanged: tokens type..last label
	labelLo int
	labelHi int
	body    *mBody
	orig    bool
	oneLine bool // orig: braces on one line
}

type mItem struct {
	a      *mAttr
	b      *mBlock
	lo, hi int // orig: claimed source region (lead comments .. end of line)
	orig   bool
	// braceLine: the item's lead comments start right behind the enclosing block's
	// opening brace, on the brace's line, and include the comment that ends that line
	braceLine bool
	braceRun  bool
}

type mBody struct {
	items        []*mItem
	unterminated string // "", "eof" or "one-line-block": an item appended here follows a token that is not a line end
}

type region struct{ lo, hi int }

// removedBehindBraceRun counts the cases that remove the first item of a body with
// >= 2 items whose opening-brace line carries inline comment(s) followed by a line
// comment (reported in the evidence file).
var removedBehindBraceRun int64

type model struct {
	root    *mBody
	removed []region
	newN    int

	lastRemoved   string
	lastRemovedIn *mBody

	mutateArgs bool // the caller overwrites the slices it passed to the write API
}

func tokIndexAt(toks []tk, off int) int { return tokLowerBound(toks, off) }

func endsLine(t tk) bool {
	return t.Type == hclsyntax.TokenNewline || (t.Type == hclsyntax.TokenComment && strings.HasSuffix(t.Bytes, "\n"))
}

// buildBody builds the model of a body; lo/hi bound the token indices of the body.
func buildBody(src []byte, toks []tk, body *hclsyntax.Body, minTok int, inBlock bool) *mBody {
	mb := &mBody{}
	type it struct {
		start, end int
		attr       *hclsyntax.Attribute
		block      *hclsyntax.Block
	}
	var its []it
	for _, a := range body.Attributes {
		its = append(its, it{a.SrcRange.Start.Byte, a.SrcRange.End.Byte, a, nil})
	}
	for _, b := range body.Blocks {
		r := b.Range()
		its = append(its, it{r.Start.Byte, r.End.Byte, nil, b})
	}
	sort.Slice(its, func(i, j int) bool { return its[i].start < its[j].start })
	floor := minTok // token index below which lead comments may not reach
	for _, x := range its {
		first := tokIndexAt(toks, x.start)
		last := tokIndexAt(toks, x.end) // first token after the item
		// lead comments: comment tokens directly before the item
		lead := first
		for lead-1 >= floor && toks[lead-1].Type == hclsyntax.TokenComment {
			lead--
		}
		// line end: comments up to and including the end of the line
		end := last
		for end < len(toks) {
			t := toks[end]
			if t.Type == hclsyntax.TokenComment {
				end++
				if strings.HasSuffix(t.Bytes, "\n") {
					break
				}
				continue
			}
			if t.Type == hclsyntax.TokenNewline {
				end++
			}
			break
		}
		item := &mItem{orig: true, lo: toks[lead].Start}
		if inBlock && lead == minTok {
			for k := lead; k < first; k++ {
				if endsLine(toks[k]) {
					item.braceLine = true
					item.braceRun = k > lead // inline comment(s) before the one that ends the line
					break
				}
			}
		}
		if end-1 >= 0 && end-1 < len(toks) {
			item.hi = toks[end-1].End
		}
		if item.hi < x.end {
			item.hi = x.end
		}
		floor = end
		if x.attr != nil {
			a := x.attr
			er := a.Expr.Range()
			item.a = &mAttr{name: a.Name, kind: "orig", toks: toksIn(toks, a.SrcRange.Start.Byte, a.SrcRange.End.Byte), exprLo: er.Start.Byte, exprHi: er.End.Byte}
		} else {
			b := x.block
			hdrEnd := b.TypeRange.End.Byte
			blk := &mBlock{typ: b.Type, labels: append([]string(nil), b.Labels...), orig: true}
			if len(b.LabelRanges) > 0 {
				hdrEnd = b.LabelRanges[len(b.LabelRanges)-1].End.Byte
				blk.labelLo, blk.labelHi = b.LabelRanges[0].Start.Byte, hdrEnd
			}
			blk.header = toksIn(toks, b.TypeRange.Start.Byte, hdrEnd)
			// single-line form: what follows the opening brace (inline comments
			// aside) is not the end of the line
			k := tokIndexAt(toks, b.OpenBraceRange.End.Byte)
			for k < len(toks) && toks[k].Type == hclsyntax.TokenComment && !endsLine(toks[k]) {
				k++
			}
			blk.oneLine = k < len(toks) && !endsLine(toks[k])
			blk.body = buildBody(src, toks, b.Body, tokIndexAt(toks, b.OpenBraceRange.End.Byte), true)
			if blk.oneLine {
				blk.body.unterminated = "one-line-block"
			}
			item.b = blk
		}
		mb.items = append(mb.items, item)
	}
	return mb
}

func (m *mBody) blocks() []*mItem {
	var out []*mItem
	for _, it := range m.items {
		if it.b != nil {
			out = append(out, it)
		}
	}
	return out
}

func (m *mBody) attrs() []*mItem {
	var out []*mItem
	for _, it := range m.items {
		if it.a != nil {
			out = append(out, it)
		}
	}
	return out
}

func (m *mBody) remove(x *mItem) {
	for i, it := range m.items {
		if it == x {
			m.items = append(m.items[:i:i], m.items[i+1:]...)
			return
		}
	}
}

func editTraversal(e *Edit) hcl.Traversal {
	tr := hcl.Traversal{hcl.TraverseRoot{Name: e.Root}}
	for _, s := range e.Steps {
		switch {
		case s.Num != nil:
			tr = append(tr, hcl.TraverseIndex{Key: cfggen.NumberOf(*s.Num)})
		case s.Idx != nil:
			tr = append(tr, hcl.TraverseIndex{Key: cty.NumberIntVal(int64(*s.Idx))})
		case s.Key != nil:
			tr = append(tr, hcl.TraverseIndex{Key: cty.StringVal(*s.Key)})
		default:
			tr = append(tr, hcl.TraverseAttr{Name: s.Attr})
		}
	}
	return tr
}

func rawTokens(s string) ([]tk, hclwrite.Tokens) {
	nt, _ := hclsyntax.LexExpression([]byte(s), "", startPos)
	var ts []tk
	var wt hclwrite.Tokens
	for _, t := range nt {
		if t.Type == hclsyntax.TokenEOF {
			continue
		}
		ts = append(ts, tk{Type: t.Type, Bytes: string(t.Bytes)})
		wt = append(wt, &hclwrite.Token{Type: t.Type, Bytes: append([]byte(nil), t.Bytes...)})
	}
	return ts, wt
}

type applied struct {
	ops        map[string]bool
	appendOpen string // an item was appended to a body whose last token is not a line end ("eof" / "one-line-block")
	braceLine  bool   // an item was removed whose lead comments include the one ending the opening-brace line
	nonPrint   bool   // a string with a non-printable rune was written (value or label)
	f64quirk   bool   // a float64-precision number was written whose shortest decimal (math/big) is a different float64
}

// apply runs one edit on the writer body and on the model.
func (md *model) apply(e *Edit, wroot *hclwrite.Body, ap *applied) {
	mb, wb := md.root, wroot
	for _, p := range e.Path {
		mbl := mb.blocks()
		wbl := wb.Blocks()
		if len(mbl) == 0 || len(wbl) != len(mbl) {
			break
		}
		mb, wb = mbl[p%len(mbl)].b.body, wbl[p%len(wbl)].Body()
	}
	pickName := func() (string, *mItem) {
		as := mb.attrs()
		if e.Name == 4 && md.lastRemoved != "" && md.lastRemovedIn == mb {
			// set again the attribute that was removed last
			for _, it := range as {
				if it.a.name == md.lastRemoved {
					return it.a.name, it
				}
			}
			return md.lastRemoved, nil
		}
		if e.Name < 0 || len(as) == 0 {
			md.newN++
			return fmt.Sprintf("new_attr_%d", md.newN), nil
		}
		it := as[e.Name%len(as)]
		return it.a.name, it
	}
	setAttr := func(name string, it *mItem, na *mAttr) {
		if it != nil {
			if it.a.kind == "orig" {
				md.removed = append(md.removed, region{it.a.exprLo, it.a.exprHi})
			}
			na.name = name
			it.a = na
			return
		}
		if mb.unterminated != "" && ap.appendOpen == "" {
			ap.appendOpen = mb.unterminated
		}
		na.name = name
		mb.items = append(mb.items, &mItem{a: na})
		mb.unterminated = ""
	}
	ap.ops[e.Op] = true
	switch e.Op {
	case "bulk-append":
		// N items through the API, one real call each; the names are new
		for i := 0; i < e.N; i++ {
			if mb.unterminated != "" && ap.appendOpen == "" {
				ap.appendOpen = mb.unterminated
			}
			mb.unterminated = ""
			if e.BlockEvery > 0 && i%e.BlockEvery == e.BlockEvery-1 {
				wb.AppendNewBlock("bulk_new", []string{fmt.Sprint(i)})
				mb.items = append(mb.items, &mItem{b: &mBlock{typ: "bulk_new", labels: []string{fmt.Sprint(i)}, body: &mBody{}}})
				continue
			}
			md.newN++
			name := fmt.Sprintf("new_attr_%d", md.newN)
			val, ty := bulkValue(i)
			v := cfggen.Typed(val, ty)
			wb.SetAttributeValue(name, v)
			mb.items = append(mb.items, &mItem{a: &mAttr{name: name, kind: "value", val: v}})
		}
	case "set-value":
		name, it := pickName()
		v := cfggen.Typed(e.Val, e.Type)
		if containsNonPrintable(e.Val) {
			ap.nonPrint = true
		}
		if cfggen.ShortestDecimalQuirk(e.Val) {
			ap.f64quirk = true
		}
		wb.SetAttributeValue(name, v)
		setAttr(name, it, &mAttr{kind: "value", val: v})
	case "set-traversal":
		name, it := pickName()
		tr := editTraversal(e)
		for _, s := range e.Steps {
			if s.Key != nil && hasNonPrintable(*s.Key) {
				ap.nonPrint = true
			}
		}
		arg := append(hcl.Traversal(nil), tr...)
		wb.SetAttributeTraversal(name, arg)
		if md.mutateArgs {
			for i := range arg {
				arg[i] = hcl.TraverseAttr{Name: "caller_reused_this_slot"}
			}
		}
		setAttr(name, it, &mAttr{kind: "traversal", trav: tr})
	case "set-raw":
		name, it := pickName()
		ts, wt := rawTokens(e.Raw)
		wb.SetAttributeRaw(name, wt)
		if md.mutateArgs {
			// the slice is the caller's; the *Token values it pointed to are left alone
			// (the file shares those by design: NewExpressionRaw copies the slice only)
			for i := range wt {
				wt[i] = &hclwrite.Token{Type: hclsyntax.TokenIdent, Bytes: []byte("caller_reused_this_slot")}
			}
		}
		setAttr(name, it, &mAttr{kind: "raw", raw: ts})
	case "remove-attr":
		as := mb.attrs()
		if e.Name < 0 || len(as) == 0 {
			wb.RemoveAttribute("no_such_attribute")
			return
		}
		it := as[e.Name%len(as)]
		wb.RemoveAttribute(it.a.name)
		md.lastRemoved, md.lastRemovedIn = it.a.name, mb
		if it.braceLine {
			ap.braceLine = true
			if it.braceRun && len(mb.items) >= 2 {
				atomic.AddInt64(&removedBehindBraceRun, 1)
			}
		}
		if it.orig {
			md.removed = append(md.removed, region{it.lo, it.hi})
		}
		mb.remove(it)
	case "remove-first-item":
		if len(mb.items) == 0 {
			return
		}
		it := mb.items[0]
		if it.a != nil {
			wb.RemoveAttribute(it.a.name)
			md.lastRemoved, md.lastRemovedIn = it.a.name, mb
		} else {
			wbl := wb.Blocks()
			if len(wbl) == 0 {
				return
			}
			wb.RemoveBlock(wbl[0])
		}
		if it.braceLine {
			ap.braceLine = true
			if it.braceRun && len(mb.items) >= 2 {
				atomic.AddInt64(&removedBehindBraceRun, 1)
			}
		}
		if it.orig {
			md.removed = append(md.removed, region{it.lo, it.hi})
		}
		mb.remove(it)
	case "append-block":
		for _, l := range e.Labels {
			if hasNonPrintable(l) {
				ap.nonPrint = true
			}
		}
		arg := append([]string(nil), e.Labels...)
		wb.AppendNewBlock(e.BType, arg)
		if md.mutateArgs {
			for i := range arg {
				arg[i] = "caller reused this slot"
			}
		}
		if mb.unterminated != "" && ap.appendOpen == "" {
			ap.appendOpen = mb.unterminated
		}
		mb.items = append(mb.items, &mItem{b: &mBlock{typ: e.BType, labels: append([]string{}, e.Labels...), body: &mBody{}}})
		mb.unterminated = ""
	case "remove-block":
		mbl, wbl := mb.blocks(), wb.Blocks()
		if len(mbl) == 0 || len(wbl) != len(mbl) {
			return
		}
		it := mbl[e.Block%len(mbl)]
		wb.RemoveBlock(wbl[e.Block%len(wbl)])
		if it.braceLine {
			ap.braceLine = true
			if it.braceRun && len(mb.items) >= 2 {
				atomic.AddInt64(&removedBehindBraceRun, 1)
			}
		}
		if it.orig {
			md.removed = append(md.removed, region{it.lo, it.hi})
		}
		mb.remove(it)
	case "set-labels":
		mbl, wbl := mb.blocks(), wb.Blocks()
		if len(mbl) == 0 || len(wbl) != len(mbl) {
			return
		}
		it := mbl[e.Block%len(mbl)]
		for _, l := range e.Labels {
			if hasNonPrintable(l) {
				ap.nonPrint = true
			}
		}
		arg := append([]string(nil), e.Labels...)
		wbl[e.Block%len(wbl)].SetLabels(arg)
		if md.mutateArgs {
			for i := range arg {
				arg[i] = "caller reused this slot"
			}
		}
		if it.b.header != nil && it.b.labelHi > it.b.labelLo {
			md.removed = append(md.removed, region{it.b.labelLo, it.b.labelHi})
		}
		if it.b.header != nil {
			it.b.header = it.b.header[:1] // only the type name is still original
		}
		it.b.labels = append([]string{}, e.Labels...)
	}
}

func containsNonPrintable(v cfggen.Val) bool {
	if v.K == "s" && hasNonPrintable(v.S) {
		return true
	}
	for _, e := range v.L {
		if containsNonPrintable(e) {
			return true
		}
	}
	for _, kv := range v.M {
		if hasNonPrintable(kv.K) || containsNonPrintable(kv.V) {
			return true
		}
	}
	return false
}

func opsSig(ap *applied) string {
	var l []string
	for k := range ap.ops {
		l = append(l, k)
	}
	sort.Strings(l)
	return strings.Join(l, "+")
}

func sameTraversal(a, b hcl.Traversal) bool {
	if len(a) != len(b) {
		return false
	}
	for i := range a {
		switch x := a[i].(type) {
		case hcl.TraverseRoot:
			y, ok := b[i].(hcl.TraverseRoot)
			if !ok || x.Name != y.Name {
				return false
			}
		case hcl.TraverseAttr:
			y, ok := b[i].(hcl.TraverseAttr)
			if !ok || x.Name != y.Name {
				return false
			}
		case hcl.TraverseIndex:
			y, ok := b[i].(hcl.TraverseIndex)
			if !ok || !x.Key.RawEquals(y.Key) {
				return false
			}
		default:
			return false
		}
	}
	return true
}

// compareBody checks the re-parsed body against the model.
func compareBody(mb *mBody, ob *hclsyntax.Body, otoks []tk, path string) (string, string) {
	type it struct {
		start int
		attr  *hclsyntax.Attribute
		block *hclsyntax.Block
	}
	var its []it
	for _, a := range ob.Attributes {
		its = append(its, it{a.SrcRange.Start.Byte, a, nil})
	}
	for _, b := range ob.Blocks {
		its = append(its, it{b.TypeRange.Start.Byte, nil, b})
	}
	sort.Slice(its, func(i, j int) bool { return its[i].start < its[j].start })
	if len(its) != len(mb.items) {
		return "structure|item-count", fmt.Sprintf("%s: output has %d items, the model %d", path, len(its), len(mb.items))
	}
	for i, x := range its {
		m := mb.items[i]
		switch {
		case m.a != nil:
			if x.attr == nil || x.attr.Name != m.a.name {
				return "structure|item-order-or-kind", fmt.Sprintf("%s: item %d should be attribute %q", path, i, m.a.name)
			}
			switch m.a.kind {
			case "orig":
				got := toksIn(otoks, x.attr.SrcRange.Start.Byte, x.attr.SrcRange.End.Byte)
				if k := sameToks(m.a.toks, got); k >= 0 {
					return "untouched-attribute-changed", fmt.Sprintf("%s/%s: token %d was %s, now %s", path, m.a.name, k, tokAt(m.a.toks, k), tokAt(got, k))
				}
			case "value":
				got, d := x.attr.Expr.Value(nil)
				if d.HasErrors() {
					return "set-value|does-not-evaluate", fmt.Sprintf("%s/%s: %s", path, m.a.name, d.Error())
				}
				want := m.a.val
				if want.Type() != cty.DynamicPseudoType && !want.Type().HasDynamicTypes() {
					cv, err := convert.Convert(got, want.Type())
					if err != nil {
						return "set-value|wrong-value", fmt.Sprintf("%s/%s: %#v does not convert to %s: %s", path, m.a.name, got, want.Type().FriendlyName(), err)
					}
					got = cv
				}
				if !sameValue(got, want) {
					return "set-value|wrong-value", fmt.Sprintf("%s/%s: reads back as %#v, was set to %#v", path, m.a.name, got, want)
				}
			case "traversal":
				tr, d := hcl.AbsTraversalForExpr(x.attr.Expr)
				if d.HasErrors() || !sameTraversal(tr, m.a.trav) {
					return "set-traversal|wrong-traversal", fmt.Sprintf("%s/%s: reads back as %#v (%v), was set to %#v", path, m.a.name, tr, d, m.a.trav)
				}
			case "raw":
				er := x.attr.Expr.Range()
				got := toksIn(otoks, er.Start.Byte, er.End.Byte)
				if k := sameToks(m.a.raw, got); k >= 0 {
					return "set-raw|wrong-tokens", fmt.Sprintf("%s/%s: token %d should be %s, is %s", path, m.a.name, k, tokAt(m.a.raw, k), tokAt(got, k))
				}
			}
		default:
			if x.block == nil || x.block.Type != m.b.typ {
				return "structure|item-order-or-kind", fmt.Sprintf("%s: item %d should be block %q", path, i, m.b.typ)
			}
			if len(x.block.Labels) != len(m.b.labels) {
				return "block-labels-differ", fmt.Sprintf("%s/%s: labels %q, model %q", path, m.b.typ, x.block.Labels, m.b.labels)
			}
			for k := range m.b.labels {
				if x.block.Labels[k] != m.b.labels[k] {
					return "block-labels-differ", fmt.Sprintf("%s/%s: labels %q, model %q", path, m.b.typ, x.block.Labels, m.b.labels)
				}
			}
			if m.b.header != nil {
				hdrEnd := x.block.TypeRange.End.Byte
				if len(m.b.header) > 1 && len(x.block.LabelRanges) > 0 {
					hdrEnd = x.block.LabelRanges[len(x.block.LabelRanges)-1].End.Byte
				}
				got := toksIn(otoks, x.block.TypeRange.Start.Byte, hdrEnd)
				if k := sameToks(m.b.header, got); k >= 0 {
					return "untouched-block-header-changed", fmt.Sprintf("%s/%s: header token %d was %s, now %s", path, m.b.typ, k, tokAt(m.b.header, k), tokAt(got, k))
				}
			}
			if sig, msg := compareBody(m.b.body, x.block.Body, otoks, fmt.Sprintf("%s/%s[%d]", path, m.b.typ, i)); sig != "" {
				return sig, msg
			}
		}
	}
	return "", ""
}

func checkB(c CaseB) *core.Violation {
	k := newKeeper()
	return k.finish(checkB1(c, k))
}

func checkB1(c CaseB, k *keeper) *core.Violation {
	// the caller's buffer; the model is built from the scanner's tokens (string copies)
	// before the buffer is used again
	full := c.source()
	cb := newCallerBuf(c.Reuse, full, c.Over, reuseFallbackConfig)
	src := cb.b
	parsed, pd := hclsyntax.ParseConfig(src, "", startPos)
	if pd.HasErrors() {
		return nil
	}
	toks, ok := lex(src)
	if !ok {
		return nil
	}
	f, diags := hclwrite.ParseConfig(src, "", startPos)
	if diags.HasErrors() || f == nil {
		return nil // C20(a)
	}
	// files that the writer does not even load losslessly are C20(a)'s findings;
	// edits are checked on the others
	{
		lt, _ := lex(k.keep("Tokens.Bytes", f.BuildTokens(nil).Bytes()))
		if sameToks(toks, lt) >= 0 {
			return nil
		}
	}
	md := &model{root: buildBody(src, toks, parsed.Body.(*hclsyntax.Body), 0, false), mutateArgs: c.MutateArgs}
	src, parsed = nil, nil
	reuseAt := c.ReuseAt % (len(c.Edits) + 1)
	if reuseAt < 0 {
		reuseAt = 0
	}
	reuseNow := func(i int) {
		if i != reuseAt {
			return
		}
		cb.reuse(func(next []byte) {
			// the caller loads its next file through the same buffer
			if nf, _ := hclwrite.ParseConfig(next, "", startPos); nf != nil {
				k.keep("Tokens.Bytes", nf.BuildTokens(nil).Bytes())
			}
		})
	}
	// the root body is "open" when the file does not end with a line end
	last := -1
	for i := len(toks) - 1; i >= 0; i-- {
		if toks[i].Type != hclsyntax.TokenEOF {
			last = i
			break
		}
	}
	if last >= 0 && !endsLine(toks[last]) {
		md.root.unterminated = "eof"
	}

	ap := &applied{ops: map[string]bool{}}
	for i := range c.Edits {
		reuseNow(i)
		md.apply(&c.Edits[i], f.Body(), ap)
		// the file is serialised after every edit, through alternating entry points,
		// and every result is retained (File.Bytes formats the tree in place, which
		// changes nothing the model looks at)
		if !serialiseAfter(i, len(c.Edits)) {
			continue
		}
		switch (i + len(c.Src)) % 4 {
		case 0:
			k.keep("File.Bytes", f.Bytes())
		case 1:
			k.keep("Tokens.Bytes", f.BuildTokens(nil).Bytes())
		case 2:
			k.keep("Format", hclwrite.Format(k.keep("Body.BuildTokens.Bytes", f.Body().BuildTokens(nil).Bytes())))
		}
	}
	core.SetExtra("c20b_cases_removing_first_item_behind_brace_comment_run", atomic.LoadInt64(&removedBehindBraceRun))
	reuseNow(len(c.Edits))
	out := k.keep("File.Bytes", f.Bytes())
	// one more serialisation of different content before the output is looked at
	k.keep("Format", hclwrite.Format([]byte(full)))
	show := func() string {
		return fmt.Sprintf("edits: %s\noutput:\n%s\nsource:\n%s", clip(fmt.Sprintf("%+v", c.Edits), 1500), clip(string(out), 2500), clip(full, 2500))
	}
	oparsed, od := hclsyntax.ParseConfig(out, "", startPos)
	// a case in which an item was appended behind a token that does not end its
	// line is attributed to that, whatever the symptom (parse error, item swallowed
	// by a comment, ...)
	attribute := func(sig string) string {
		if ap.f64quirk && strings.HasPrefix(sig, "edit|set-value|wrong-value") {
			return "edit|set-value|wrong-value|float64-power-of-two-shortest-decimal"
		}
		switch ap.appendOpen {
		case "eof":
			return "edit|append-after-last-line-without-newline"
		case "one-line-block":
			return "edit|append-into-one-line-block"
		}
		if ap.braceLine {
			return "edit|remove-first-item|takes-comment-ending-the-opening-brace-line"
		}
		return sig
	}
	if od.HasErrors() {
		cause := "other|" + opsSig(ap)
		if ap.nonPrint {
			only := true
			for _, d := range od {
				if d.Severity == hcl.DiagError && d.Summary != "Invalid escape sequence" {
					only = false
				}
			}
			if only {
				cause = "non-printable-rune-written-as-unicode-escape"
			}
		}
		return core.V(attribute("edit|output-does-not-parse|"+cause), "the edited file no longer parses: %s\n%s", od.Error(), show())
	}
	otoks, _ := lex(out)
	if sig, msg := compareBody(md.root, oparsed.Body.(*hclsyntax.Body), otoks, ""); sig != "" {
		return core.V(attribute("edit|"+sig+"|"+opsSig(ap)), "%s\n%s", msg, show())
	}
	// comments
	var all, must []string
	for _, ct := range comments(toks) {
		all = append(all, ct.Bytes)
		gone := false
		for _, r := range md.removed {
			if ct.Start >= r.lo && ct.End <= r.hi {
				gone = true
			}
		}
		if !gone {
			must = append(must, ct.Bytes)
		}
	}
	var have []string
	for _, ct := range comments(otoks) {
		have = append(have, ct.Bytes)
	}
	norm := func(l []string) []string {
		o := make([]string, len(l))
		for i, s := range l {
			o[i] = strings.TrimRight(s, "\r\n")
		}
		return o
	}
	if ok, missing := isSubseq(norm(must), norm(have)); !ok {
		return core.V(attribute("edit|comment-lost|"+opsSig(ap)), "comment %q belongs to no removed or replaced item and is missing from the output (or out of order)\n%s", missing, show())
	}
	if ok, extra := isSubseq(norm(have), norm(all)); !ok {
		return core.V(attribute("edit|comment-appeared|"+opsSig(ap)), "comment %q of the output is not an original comment in original order\n%s", extra, show())
	}
	return nil
}

var braceCommentRun = regexp.MustCompile(`\{[ \t]*(/\*[^\n]*?\*/[ \t]*)+(#|//)`)

func classifyB(c CaseB) core.Class {
	var cl core.Class
	full := c.source()
	valid, heredoc, comment, template := srcClass(full)
	cl.Labels = append(cl.Labels, "origin:"+c.Origin)
	if !valid {
		cl.Labels = append(cl.Labels, "source:rejected-by-parser(skipped)")
		cl.Fingerprint = "invalid"
		return cl
	}
	ops := map[string]bool{}
	deep := false
	nums := map[string]bool{}
	for _, e := range c.Edits {
		if e.Op == "set-value" {
			cfggen.NumClasses(e.Val, false, nums)
		}
		for _, st := range e.Steps {
			if st.Num != nil {
				nums["num-index-key:"+cfggen.NumClass(*st.Num)] = true
			}
		}
	}
	for k := range nums {
		cl.Labels = append(cl.Labels, k)
	}
	many := len(c.Edits) > manyEdits
	for _, e := range c.Edits {
		if !many || !ops[e.Op] {
			cl.Labels = append(cl.Labels, "op:"+e.Op)
		}
		ops[e.Op] = true
		if len(e.Path) > 0 {
			deep = true
		}
		if e.Op == "bulk-append" {
			cl.Labels = append(cl.Labels, scaleLabel("items-per-body(api)", e.N))
		}
	}
	if c.Bulk != nil {
		cl.Labels = append(cl.Labels, scaleLabel("items-per-body(source)", c.Bulk.N), "scale:file-size:"+sizeBucket(len(full)))
	}
	if many {
		cl.Labels = append(cl.Labels, scaleLabel("edits-per-history", len(c.Edits)))
	}
	if c.Bulk != nil || ops["bulk-append"] {
		// what the history does to the large body
		seenRemove, reset := false, false
		for i, e := range c.Edits {
			switch e.Op {
			case "bulk-append":
				pos := "between-the-edits"
				if i == 0 {
					pos = "before-the-edits"
				} else if i == len(c.Edits)-1 {
					pos = "behind-the-edits"
				}
				cl.Labels = append(cl.Labels, "scale:bulk-append-"+pos)
			case "remove-attr", "remove-first-item":
				seenRemove = true
			case "set-value", "set-raw", "set-traversal":
				if seenRemove && e.Name == 4 {
					reset = true
				}
				if e.Name >= 250 {
					cl.Labels = append(cl.Labels, "scale:set-aimed-at-name-250-or-beyond")
				}
			}
			if (e.Op == "remove-attr") && e.Name >= 250 {
				cl.Labels = append(cl.Labels, "scale:remove-aimed-at-name-250-or-beyond")
			}
		}
		if reset {
			cl.Labels = append(cl.Labels, "scale:remove-then-set-of-removed-name-may-apply")
		}
	}
	if deep {
		cl.Labels = append(cl.Labels, "edit:nested-body")
	}
	if braceCommentRun.MatchString(c.Src) {
		cl.Labels = append(cl.Labels, "src:brace-line-with-inline-then-line-comment")
		if ops["remove-first-item"] && deep {
			cl.Labels = append(cl.Labels, "edit:remove-first-item-in-file-with-brace-comment-run")
		}
	}
	cl.Labels = append(cl.Labels, reuseLabel(c.Reuse))
	if c.Reuse != reuseNone {
		at := c.ReuseAt % (len(c.Edits) + 1)
		switch {
		case at <= 0:
			cl.Labels = append(cl.Labels, "input:buffer-reused-before-first-edit")
		case at == len(c.Edits):
			cl.Labels = append(cl.Labels, "input:buffer-reused-after-last-edit")
		default:
			cl.Labels = append(cl.Labels, "input:buffer-reused-between-edits")
		}
	}
	if c.MutateArgs {
		mut := false
		for _, e := range c.Edits {
			switch e.Op {
			case "set-raw", "set-traversal":
				mut = true
			case "append-block", "set-labels":
				mut = mut || len(e.Labels) > 0
			}
		}
		if mut {
			cl.Labels = append(cl.Labels, "args:caller-overwrites-passed-slices-after-call")
		} else {
			cl.Labels = append(cl.Labels, "args:caller-would-overwrite(no-slice-argument-in-case)")
		}
	} else {
		cl.Labels = append(cl.Labels, "args:left-alone")
	}
	if many {
		cl.Labels = append(cl.Labels, "nedits:many(serialised-at-checkpoints)")
	} else {
		cl.Labels = append(cl.Labels, fmt.Sprintf("nedits:%d", len(c.Edits)))
	}
	for i := range c.Edits {
		if serialiseAfter(i, len(c.Edits)) {
			cl.Labels = append(cl.Labels, "results:after-edit-via-"+[]string{"File.Bytes", "Tokens.Bytes", "Format+Body.BuildTokens", "none"}[(i+len(c.Src))%4])
		}
	}
	var ol []string
	for o := range ops {
		ol = append(ol, o)
	}
	sort.Strings(ol)
	if len(ol) > 2 {
		ol = ol[:2]
	}
	cl.NonTrivial = heredoc || comment || template || len(c.Edits) >= 2
	cl.Fingerprint = fmt.Sprintf("%s|h=%v|c=%v|t=%v|n=%d|%s", c.Origin, heredoc, comment, template, minInt(len(c.Edits), 3), strings.Join(ol, "+"))
	recordScale("b", cl.Labels)
	return cl
}

func TestC20b(t *testing.T) {
	core.Run(t, core.Spec[CaseB]{
		Property: "C20", Sub: "b",
		Rule: "a generated source file (as in C20a) and 1-5 edits, each on the root body or a nested body reached through 0-2 block indices: SetAttributeValue (primitive/list/map/set/any values, arbitrary Unicode strings, numbers at and beyond the int64/uint64 boundaries, huge, tiny, non-terminating fractions, -0, also nested), SetAttributeTraversal (incl. such numbers as index keys), SetAttributeRaw, RemoveAttribute (existing or missing), AppendNewBlock (0-2 labels), RemoveBlock, removal of the first item of a body, SetLabels; the same edits update a model built from hclsyntax's parse. Oracle: the file is serialised after every edit through alternating entry points and every returned slice must stay what it was; the final File.Bytes() parses; every body shows the model's items in order; untouched attributes and block headers keep their tokens; set attributes read back as the value / traversal / tokens given; labels are the model's; comments outside removed or replaced regions are all still there in order and no comment appears. Non-trivial: heredoc, comment or template in the file, or >=2 edits; distinct = (origin, heredoc, comment, template, #edits<=3, first two op kinds). In about half of the cases the caller reuses its input buffers (labels input:caller-reuses-buffer|fill-0xAA / other-source-bytes / next-source-parsed, the other half input:caller-leaves-buffer-alone): as soon as a parsing entry point has returned, the []byte that was passed to it is filled with 0xAA, or overwritten with the bytes of a different generated source of the same length, or truncated and the next source read into the same backing array and parsed; everything obtained from the call is used only after that and must be what it is in the other half (oracles work on a private copy of the text taken before the call). Here: the buffer given to hclwrite.ParseConfig, reused once at a generated point of the history (before the first edit, between two edits, or after the last edit and before the final serialisation; labels input:buffer-reused-*), in mode next-source-parsed a second generated file is loaded through the same backing array. In half of the cases (label args:caller-overwrites-passed-slices-after-call) the caller overwrites every element of the Tokens slice passed to SetAttributeRaw, of the Traversal passed to SetAttributeTraversal and of the label slices passed to AppendNewBlock / SetLabels right after the call returned; the file must keep what was passed at the time of the call (the *Token values the Tokens slice pointed to are not written: NewExpressionRaw copies the slice only and shares the tokens). SCALE (about 1 case in 50; labels scale:items-per-body(source|api):<bucket>, scale:edits-per-history:<bucket>, scale:bulk-append-before/between/behind-the-edits, scale:remove-then-set-of-removed-name-may-apply, also counted in the evidence extra c20b_scale_cases_of_one_shard), counts from the threshold-adjacent pool {63,64,65, 127,128,129, 255,256,257, 511,512,513, 999,1000,1001, 1023,1024,1025, 2047,2048,2049, 4095,4096,4097, 8191,8192,8193}: (1) items-in-source: a body of N items (as in C20a, root level or inside 1-2 wrapping blocks, N <= 2049 in the quick tier, thorough 8193) is parsed and 3-8 edits follow; (2) items-via-api: 3-8 edits and one bulk-append edit that appends N items through the API, one real call each (SetAttributeValue of a new name with number/string/bool/list values, every 3rd/16th/100th an AppendNewBlock), before, between or behind the other edits, into the root or a nested body (N <= 513 quick, 2049 thorough: every append re-reads its body's tokens, so N appends are quadratic); in (1) and (2) three edits out of four go to the large body and aim at names across it (first, last, around index 255/256, anywhere, a new name, or the name that was removed last), half of those being attribute operations (set, remove, set again what was removed); (3) edits: a history of N generated edits (N <= 1025 quick, 2049 thorough), the file being serialised after the first four, the middle and the last four edits only. Same oracle on the final file",
		Gen:  genB, Check: checkB, Classify: classifyB,
		Assumptions: []string{
			"hclsyntax's parse of the source and of the output is the trusted observer of structure",
			"lead comments = comment tokens directly before an item (no blank line), line comments = comments up to the end of the item's line, as documented in hclwrite/parser.go; an item removed may or may not take these with it",
		},
	})
}

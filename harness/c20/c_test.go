package c20

// C20(c,d): P4 — generated source reads back as what was written.
//
// (c) hclwrite.TokensForValue(v).Bytes() parses as an expression that evaluates
//     (nil context) to v; lists, sets and maps come back as tuples/objects, which
//     NewExpressionLiteral documents, so the comparison is made after converting
//     to v's type.
// (d) gohcl.EncodeIntoBody(struct) into an empty file, File.Bytes(), parse,
//     gohcl.DecodeBody into the same struct type gives an equal struct.

import (
	"fmt"
	"reflect"
	"strings"
	"testing"

	hcl "Havoc/pkg/profile/yaotl"
	"Havoc/pkg/profile/yaotl/gohcl"
	"Havoc/pkg/profile/yaotl/hclsyntax"
	"Havoc/pkg/profile/yaotl/hclwrite"

	"github.com/zclconf/go-cty/cty"
	"github.com/zclconf/go-cty/cty/convert"
	"pgregory.net/rapid"

	"verifharness/internal/cfggen"
	"verifharness/internal/core"
)

type CaseC struct {
	Type  cfggen.Type `json:"type"`
	Val   cfggen.Val  `json:"val"`
	Type2 cfggen.Type `json:"type2,omitempty"` // a second value serialised before the first result is read
	Val2  cfggen.Val  `json:"val2,omitempty"`
	// Reuse: what the caller does with the []byte it passed to the expression parser
	// after the call returned ("" = nothing; see common_test.go)
	Reuse string `json:"reuse,omitempty"`
	// ScaleN > 0: Val (a list, set, map or untyped tuple/object) is expanded to ScaleN
	// elements by repeating its elements (expandVal, scale_test.go)
	ScaleN int `json:"scale_n,omitempty"`
}

// value: the value of the case, expanded when it is a scale case.
func (c *CaseC) value() cfggen.Val {
	if c.ScaleN > 0 {
		return expandVal(c.Val, c.ScaleN)
	}
	return c.Val
}

// replaceStrings substitutes some string leaves by arbitrary Unicode strings.
func replaceStrings(t *rapid.T, v cfggen.Val) cfggen.Val {
	switch v.K {
	case "s":
		switch rapid.IntRange(0, 5).Draw(t, "rawstring") {
		case 4:
			return cfggen.Str(rapid.StringN(0, 8, 32).Draw(t, "string"))
		case 5:
			return cfggen.Str(rapid.SampledFrom([]string{"$${", "%%{", "$${x}", "a$${", "$$${", "$$", "%%", "$%{", "%${", "${", "%{", "\\${", "\\u00e9", "\\x41", "\\"}).Draw(t, "tricky"))
		}
	case "l":
		out := cfggen.Val{K: "l"}
		for _, e := range v.L {
			out.L = append(out.L, replaceStrings(t, e))
		}
		return out
	case "m":
		out := cfggen.Val{K: "m"}
		for _, kv := range v.M {
			out.M = append(out.M, cfggen.KV{K: kv.K, V: replaceStrings(t, kv.V)})
		}
		return out
	}
	return v
}

func genValueType(t *rapid.T) cfggen.Type {
	prim := func() cfggen.Type {
		return cfggen.Type{K: rapid.SampledFrom([]string{"string", "string", "number", "bool"}).Draw(t, "prim")}
	}
	switch rapid.IntRange(0, 7).Draw(t, "tkind") {
	case 0, 1:
		return prim()
	case 2:
		e := prim()
		return cfggen.Type{K: "list", E: &e}
	case 3:
		e := prim()
		return cfggen.Type{K: "set", E: &e}
	case 4:
		e := prim()
		return cfggen.Type{K: "map", E: &e}
	case 5:
		e := prim()
		l := cfggen.Type{K: "list", E: &e}
		return cfggen.Type{K: "map", E: &l}
	case 6:
		return cfggen.Type{K: "object", F: []cfggen.Field{{N: "a", T: prim()}, {N: "b-c", T: prim()}, {N: "d e", T: prim()}}}
	}
	return cfggen.Type{K: "any"}
}

func genC(t *rapid.T) CaseC {
	ty := genValueType(t)
	v := cfggen.WidenNumbers(t, replaceStrings(t, cfggen.GenVal(t, ty)), ty)
	if rapid.IntRange(0, 15).Draw(t, "null") == 15 {
		v = cfggen.Null()
	}
	c := CaseC{Type: ty, Val: v}
	if rapid.IntRange(0, 3).Draw(t, "second-value") > 0 {
		c.Type2 = genValueType(t)
		c.Val2 = cfggen.WidenNumbers(t, replaceStrings(t, cfggen.GenVal(t, c.Type2)), c.Type2)
	}
	c.Reuse = genReuse(t)
	if oneIn(t, "scale", scaleShareC()) {
		// a long collection: 63..2049 (thorough: 8193) elements (each a few tokens)
		prim := cfggen.Type{K: rapid.SampledFrom([]string{"string", "number", "bool"}).Draw(t, "scale-prim")}
		switch rapid.IntRange(0, 4).Draw(t, "scale-kind") {
		case 0:
			c.Type = cfggen.Type{K: "list", E: &prim}
		case 1:
			c.Type = cfggen.Type{K: "set", E: &prim}
		case 2:
			c.Type = cfggen.Type{K: "map", E: &prim}
		case 3:
			l := cfggen.Type{K: "list", E: &prim}
			c.Type = cfggen.Type{K: "map", E: &l}
		default:
			c.Type = cfggen.Type{K: "any"}
		}
		c.Val = cfggen.WidenNumbers(t, replaceStrings(t, cfggen.GenVal(t, c.Type)), c.Type)
		if (c.Val.K == "l" && len(c.Val.L) > 0) || (c.Val.K == "m" && len(c.Val.M) > 0) {
			c.ScaleN = genScaleCount(t, "scale-elements", 2049, 8193)
		}
	}
	return c
}

func checkC(c CaseC) *core.Violation {
	k := newKeeper()
	v := checkC1(c.value(), c.Type, c.Val2, c.Type2, c.Reuse, k)
	if v == nil && c.Val2.K != "" {
		v = checkC1(c.Val2, c.Type2, cfggen.Val{}, cfggen.Type{}, c.Reuse, k)
	}
	return k.finish(v)
}

func checkC1(val cfggen.Val, ty cfggen.Type, val2 cfggen.Val, ty2 cfggen.Type, reuse string, k *keeper) *core.Violation {
	c := CaseC{Type: ty, Val: val}
	v := cfggen.Typed(c.Val, c.Type)
	src := k.keep("Tokens.Bytes", hclwrite.TokensForValue(v).Bytes())
	other := ""
	if val2.K != "" {
		// another value is serialised before the first result is parsed
		other = string(k.keep("Tokens.Bytes", hclwrite.TokensForValue(cfggen.Typed(val2, ty2)).Bytes()))
	}
	// src is a retained result of the library; when the caller reuses its buffers the
	// parser gets the caller's own copy of it, which is used for something else as soon
	// as the parser has returned, before the expression is evaluated
	pin := &callerBuf{b: src}
	if reuse != reuseNone {
		pin = newCallerBuf(reuse, string(src), other, reuseFallbackExpr)
	}
	expr, diags := hclsyntax.ParseExpression(pin.b, "", startPos)
	pin.reuse(func(next []byte) { hclsyntax.ParseExpression(next, "", startPos) })
	if diags.HasErrors() {
		cause := "other"
		if containsNonPrintable(c.Val) {
			only := true
			for _, d := range diags {
				if d.Severity == hcl.DiagError && d.Summary != "Invalid escape sequence" {
					only = false
				}
			}
			if only {
				cause = "non-printable-rune-written-as-unicode-escape"
			}
		}
		return core.V("TokensForValue|output-does-not-parse|"+cause, "TokensForValue(%#v) = %s: %s", v, clip(string(src), 600), diags.Error())
	}
	got, ed := expr.Value(nil)
	if ed.HasErrors() {
		return core.V("TokensForValue|output-does-not-evaluate", "TokensForValue(%#v) = %s: %s", v, clip(string(src), 600), ed.Error())
	}
	if v.Type() != cty.DynamicPseudoType && !v.Type().HasDynamicTypes() {
		cv, err := convert.Convert(got, v.Type())
		if err != nil {
			return core.V("TokensForValue|wrong-value|"+c.Type.K, "TokensForValue(%#v) = %s reads back as %#v, which does not convert to %s: %s", v, clip(string(src), 600), got, v.Type().FriendlyName(), err)
		}
		got = cv
	}
	if !sameValue(got, v) {
		cls := c.Type.K
		if cfggen.ShortestDecimalQuirk(c.Val) {
			return core.V("TokensForValue|wrong-value|float64-power-of-two-shortest-decimal", "TokensForValue(%#v) = %s reads back as %#v", v, clip(string(src), 600), got)
		}
		if strings.Contains(fmt.Sprintf("%#v", v), "$${") || strings.Contains(fmt.Sprintf("%#v", v), "%%{") {
			cls += "|doubled-template-introducer"
		}
		return core.V("TokensForValue|wrong-value|"+cls, "TokensForValue(%#v) = %s reads back as %#v", v, clip(string(src), 600), got)
	}
	return nil
}

func classifyC(c CaseC) core.Class {
	var cl core.Class
	cl.Labels = append(cl.Labels, "type:"+c.Type.K)
	np := containsNonPrintable(c.Val)
	if np {
		cl.Labels = append(cl.Labels, "string:non-printable")
	}
	special := strings.ContainsAny(fmt.Sprintf("%+v", c.Val), "${%\\\"\n")
	if special {
		cl.Labels = append(cl.Labels, "string:needs-escaping")
	}
	if c.Val.IsNull() {
		cl.Labels = append(cl.Labels, "null")
	}
	if c.Val2.K != "" {
		cl.Labels = append(cl.Labels, "results:two-values-serialised")
	}
	cl.Labels = append(cl.Labels, reuseLabel(c.Reuse))
	if c.ScaleN > 0 {
		cl.Labels = append(cl.Labels, scaleLabel("elements-per-expression", c.ScaleN), "scale:collection:"+c.Type.K+"/"+c.Val.K)
	}
	nums := map[string]bool{}
	cfggen.NumClasses(c.Val, false, nums)
	for k := range nums {
		cl.Labels = append(cl.Labels, k)
	}
	cl.NonTrivial = special || c.Type.K != "string" && c.Type.K != "number" && c.Type.K != "bool"
	cl.Fingerprint = fmt.Sprintf("%s|np=%v|esc=%v|null=%v|n=%d", c.Type.K, np, special, c.Val.IsNull(), minInt(len(c.Val.L)+len(c.Val.M), 3))
	recordScale("c", cl.Labels)
	return cl
}

func TestC20c(t *testing.T) {
	core.Run(t, core.Spec[CaseC]{
		Property: "C20", Sub: "c",
		Rule: "cty values of type string/number/bool, list/set/map of these, map of lists, object, or untyped tuple/object trees (strings from a pool of template/escape/comment look-alikes and arbitrary Unicode strings incl. control and non-printable runes; numbers: int64 boundaries and +-1 around them, uint64 above 2^63 up to MaxUint64, 2^64, 2^128, -2^70, 1e20, 1e308, 1e-7, 0.1, quotients such as 1/3 at cty precision, -0; also nested in lists/objects/maps), occasionally null. Oracle: two values are serialised and every returned slice must stay what it was; TokensForValue(v).Bytes() parses as an expression and evaluates to v (after conversion to v's type, as documented for collection literals). Non-trivial: a collection/structural value or a string that needs escaping; distinct = (type kind, non-printable, needs escaping, null, size<=3). In about half of the cases the caller reuses its input buffers (labels input:caller-reuses-buffer|fill-0xAA / other-source-bytes / next-source-parsed, the other half input:caller-leaves-buffer-alone): as soon as a parsing entry point has returned, the []byte that was passed to it is filled with 0xAA, or overwritten with the bytes of a different generated source of the same length, or truncated and the next source read into the same backing array and parsed; everything obtained from the call is used only after that and must be what it is in the other half (oracles work on a private copy of the text taken before the call). Here: the caller's copy of the generated expression text given to hclsyntax.ParseExpression, reused (in mode next-source-parsed: the second value's text parsed through it) before the expression is evaluated. SCALE (about 1 case in 100; labels scale:elements-per-expression:<bucket>, scale:collection:<type>, also counted in the evidence extra c20c_scale_cases_of_one_shard): a generated list, set, map, map of lists or untyped tuple/object is expanded to N elements by repeating its elements (strings, numbers and keys made distinct by the element number), N from the threshold-adjacent pool {63,64,65, 127,128,129, 255,256,257, 511,512,513, 999,1000,1001, 1023,1024,1025, 2047,2048,2049, 4095,4096,4097, 8191,8192,8193} cut at 2049 in the quick tier (thorough: 8193); same oracle",
		Gen:  genC, Check: checkC, Classify: classifyC,
		Assumptions: []string{"go-cty conversion and number parsing are the trusted base"},
	})
}

// ---------------------------------------------------------------- (d)

type CaseD struct {
	Schema cfggen.BodyS  `json:"schema"`
	Inst   cfggen.BodyI  `json:"inst"`
	Inst2  *cfggen.BodyI `json:"inst2,omitempty"` // a second instance encoded before the first file is read
	// Reuse: what the caller does with the []byte it passed to the parser after the
	// call returned, before the body is decoded ("" = nothing; see common_test.go)
	Reuse string `json:"reuse,omitempty"`
}

func genD(t *rapid.T) CaseD {
	s := cfggen.GenSchemaPlain(t, rapid.IntRange(0, 2).Draw(t, "depth"))
	in := cfggen.GenInstance(t, &s)
	c := CaseD{Schema: s, Inst: in}
	if rapid.IntRange(0, 3).Draw(t, "second-instance") > 0 {
		in2 := cfggen.GenInstance(t, &s)
		c.Inst2 = &in2
	}
	c.Reuse = genReuse(t)
	return c
}

func instNonPrintable(b *cfggen.BodyI) bool {
	for _, a := range b.Attrs {
		if containsNonPrintable(a.V) {
			return true
		}
	}
	for i := range b.Blocks {
		for _, l := range b.Blocks[i].Labels {
			if hasNonPrintable(l) {
				return true
			}
		}
		if instNonPrintable(&b.Blocks[i].Body) {
			return true
		}
	}
	return false
}

// instFloat64Quirk: some float64-typed number of the instance is one of the exact
// powers of two whose shortest decimal (math/big) is a different float64.
func instFloat64Quirk(s *cfggen.BodyS, in *cfggen.BodyI) bool {
	var inType func(v cfggen.Val, t cfggen.Type) bool
	inType = func(v cfggen.Val, t cfggen.Type) bool {
		switch t.K {
		case "number":
			if v.K == "n" && !t.Int && !t.Uint {
				f, _ := cfggen.NumberOf(v.S).AsBigFloat().Float64()
				return cfggen.Float64Quirk(f)
			}
		case "list", "set":
			for _, e := range v.L {
				if inType(e, *t.E) {
					return true
				}
			}
		case "map":
			for _, kv := range v.M {
				if inType(kv.V, *t.E) {
					return true
				}
			}
		case "object":
			for _, f := range t.F {
				if fv, ok := v.Get(f.N); ok && inType(fv, f.T) {
					return true
				}
			}
		}
		return false
	}
	for _, a := range in.Attrs {
		if as := s.Attr(a.Name); as != nil && inType(a.V, as.T) {
			return true
		}
	}
	for i := range in.Blocks {
		if bs := s.Block(in.Blocks[i].Type); bs != nil && bs.Body != nil && instFloat64Quirk(bs.Body, &in.Blocks[i].Body) {
			return true
		}
	}
	return false
}

func checkD(c CaseD) *core.Violation {
	k := newKeeper()
	v := checkD1(c, k)
	if v == nil && c.Inst2 != nil {
		v = checkD1(CaseD{Schema: c.Schema, Inst: *c.Inst2, Reuse: c.Reuse}, k)
	}
	return k.finish(v)
}

func checkD1(c CaseD, k *keeper) *core.Violation {
	want := cfggen.ExpectedStruct(&c.Schema, &c.Inst, nil)
	ptr := reflect.New(want.Type())
	ptr.Elem().Set(want)
	f := hclwrite.NewEmptyFile()
	gohcl.EncodeIntoBody(ptr.Interface(), f.Body())
	src := k.keep("File.Bytes", f.Bytes())
	other := ""
	if c.Inst2 != nil {
		// the second instance is encoded and serialised before the first file is read
		w2 := cfggen.ExpectedStruct(&c.Schema, c.Inst2, nil)
		p2 := reflect.New(w2.Type())
		p2.Elem().Set(w2)
		f2 := hclwrite.NewEmptyFile()
		gohcl.EncodeIntoBody(p2.Interface(), f2.Body())
		other = string(k.keep("File.Bytes", f2.Bytes()))
		k.keep("Tokens.Bytes", f2.BuildTokens(nil).Bytes())
	}
	// src is a retained result of the library; when the caller reuses its buffers the
	// parser gets the caller's own copy of it, which is used for something else as soon
	// as the parser has returned, before the body is decoded
	pin := &callerBuf{b: src}
	if c.Reuse != reuseNone {
		pin = newCallerBuf(c.Reuse, string(src), other, reuseFallbackConfig)
	}
	file, diags := hclsyntax.ParseConfig(pin.b, "", startPos)
	pin.reuse(func(next []byte) { hclsyntax.ParseConfig(next, "", startPos) })
	if diags.HasErrors() {
		cause := "other"
		if instNonPrintable(&c.Inst) {
			only := true
			for _, d := range diags {
				if d.Severity == hcl.DiagError && d.Summary != "Invalid escape sequence" {
					only = false
				}
			}
			if only {
				cause = "non-printable-rune-written-as-unicode-escape"
			}
		}
		return core.V("EncodeIntoBody|output-does-not-parse|"+cause, "encoded struct does not parse: %s\n%s", diags.Error(), clip(string(src), 3000))
	}
	got := reflect.New(want.Type())
	dd := gohcl.DecodeBody(file.Body, nil, got.Interface())
	if dd.HasErrors() {
		return core.V("EncodeIntoBody|output-does-not-decode", "encoded struct does not decode into its own type: %s\n%s", dd.Error(), clip(string(src), 3000))
	}
	if ok, where := cfggen.EqualGo(got.Elem(), want); !ok {
		if instFloat64Quirk(&c.Schema, &c.Inst) {
			return core.V("EncodeIntoBody|struct-differs|float64-power-of-two-shortest-decimal", "decoded struct differs from the encoded one at %s\n%s", where, clip(string(src), 3000))
		}
		return core.V("EncodeIntoBody|struct-differs", "decoded struct differs from the encoded one at %s\n%s", where, clip(string(src), 3000))
	}
	return nil
}

func classifyD(c CaseD) core.Class {
	var cl core.Class
	nb, lab, rep := 0, false, false
	var walk func(b *cfggen.BodyI, d int)
	maxd := 0
	walk = func(b *cfggen.BodyI, d int) {
		if d > maxd {
			maxd = d
		}
		seen := map[string]bool{}
		for i := range b.Blocks {
			nb++
			if len(b.Blocks[i].Labels) > 0 {
				lab = true
			}
			if seen[b.Blocks[i].Type] {
				rep = true
			}
			seen[b.Blocks[i].Type] = true
			walk(&b.Blocks[i].Body, d+1)
		}
	}
	walk(&c.Inst, 0)
	for _, a := range c.Schema.Attrs {
		k := a.T.K
		if k == "number" {
			switch {
			case a.T.Int:
				k = "number-int64"
			case a.T.Uint:
				k = "number-uint64"
			default:
				k = "number-float64"
			}
		}
		cl.Labels = append(cl.Labels, "attr:"+k)
	}
	nums := map[string]bool{}
	var walkNums func(b *cfggen.BodyI)
	walkNums = func(b *cfggen.BodyI) {
		for _, a := range b.Attrs {
			cfggen.NumClasses(a.V, false, nums)
		}
		for i := range b.Blocks {
			walkNums(&b.Blocks[i].Body)
		}
	}
	walkNums(&c.Inst)
	for k := range nums {
		cl.Labels = append(cl.Labels, k)
	}
	if lab {
		cl.Labels = append(cl.Labels, "blocks:labelled")
	}
	if rep {
		cl.Labels = append(cl.Labels, "blocks:repeated")
	}
	cl.Labels = append(cl.Labels, fmt.Sprintf("nesting:%d", maxd))
	if c.Inst2 != nil {
		cl.Labels = append(cl.Labels, "results:two-encodings-serialised")
	}
	cl.Labels = append(cl.Labels, reuseLabel(c.Reuse))
	cl.NonTrivial = nb > 0
	cl.Fingerprint = fmt.Sprintf("d=%d|lab=%v|rep=%v|nb=%d|na=%d", maxd, lab, rep, minInt(nb, 4), minInt(len(c.Inst.Attrs), 4))
	return cl
}

func TestC20d(t *testing.T) {
	core.Run(t, core.Spec[CaseD]{
		Property: "C20", Sub: "d",
		Rule: "schemas restricted to what gohcl.EncodeIntoBody documents as supported (no remain/any fields) with conforming instances, built as Go structs (reflect.StructOf, yaotl tags: attr/optional/pointer, int64/uint64/float64 number fields with boundary, >2^63, 1e20, 1e308 values, block/[]block/[]*block, labels); Oracle: two instances are encoded and serialised, every returned slice must stay what it was; EncodeIntoBody into an empty file -> Bytes() -> parse -> DecodeBody gives an equal struct. Non-trivial: at least one nested block; distinct = (nesting, labelled, repeated, #blocks<=4, #attrs<=4). In about half of the cases the caller reuses its input buffers (labels input:caller-reuses-buffer|fill-0xAA / other-source-bytes / next-source-parsed, the other half input:caller-leaves-buffer-alone): as soon as a parsing entry point has returned, the []byte that was passed to it is filled with 0xAA, or overwritten with the bytes of a different generated source of the same length, or truncated and the next source read into the same backing array and parsed; everything obtained from the call is used only after that and must be what it is in the other half (oracles work on a private copy of the text taken before the call). Here: the caller's copy of the encoded file given to hclsyntax.ParseConfig, reused (in mode next-source-parsed: the second encoding parsed through it) before the body is decoded",
		Gen:  genD, Check: checkD, Classify: classifyD,
		Assumptions: []string{"nil and empty slices/maps are the same Go result"},
	})
}

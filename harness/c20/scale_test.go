package c20

// The SCALE dimension of C20: counts that the small cases never reach.
//
//   items (attributes + blocks) per body   a, b   Bulk in the parsed source / "bulk-append" edit through the API
//   nesting depth of blocks                a      Bulk.Nest
//   file size                              a      Bulk.N x Bulk.Width
//   edits per history                      b      len(Edits)
//   elements (tokens) per expression       c      CaseC.ScaleN
//
// A large run of items is described by a few numbers in the case and expanded by the
// check, deterministically: the case stays small as JSON and costs a handful of
// draws, the library sees the real text / the real sequence of API calls.

import (
	"fmt"
	"sort"
	"strings"
	"sync"

	"pgregory.net/rapid"

	"verifharness/internal/cfggen"
	"verifharness/internal/core"
)

// scalePool: the threshold-adjacent counts.
var scalePool = []int{63, 64, 65, 127, 128, 129, 255, 256, 257, 511, 512, 513, 999, 1000, 1001,
	1023, 1024, 1025, 2047, 2048, 2049, 4095, 4096, 4097, 8191, 8192, 8193}

// About one case in scaleShareX is a scale case.  The library needs about 0.2 ms per
// item for every parse / scan / format of a file and a case does about ten of them, so
// a case of 1000 items costs as much as a few hundred ordinary cases.
// The thorough tier's pools reach 8193 items (seconds per case): there (a) and (b) take
// a sixth of the share, of 120 times as many cases (estimated +3 min wall on 16 cores).
func scaleShareOf(quick, thorough int) int {
	if core.Tier() == "thorough" {
		return thorough
	}
	return quick
}

func scaleShareA() int { return scaleShareOf(100, 600) }
func scaleShareB() int { return scaleShareOf(50, 300) }
func scaleShareC() int { return scaleShareOf(100, 300) }

// oneIn is true in about one case in n.  (rapid's integer ranges favour their bounds
// and small values, a single IntRange(0, n-1) == 0 is true far more often than 1 in n;
// small ranges are uniform, so the number is put together from base-4 digits.  All
// digits zero - where shrinking goes - is "no".)
func oneIn(t *rapid.T, label string, n int) bool {
	v, span := 0, 1
	for span < 2*n {
		v = v*4 + rapid.IntRange(0, 3).Draw(t, label)
		span *= 4
	}
	return v%n == n/2
}

// genScaleCount draws a threshold-adjacent count; the pool is cut at quick in the quick
// tier and at thorough in the thorough tier.
func genScaleCount(t *rapid.T, label string, quick, thorough int) int {
	max := quick
	if core.Tier() == "thorough" {
		max = thorough
	}
	n := 0
	for n < len(scalePool) && scalePool[n] <= max {
		n++
	}
	// uniform over the pool (SampledFrom favours the first elements): base-4 digits
	v, span := 0, 1
	for span < 4*n {
		v = v*4 + rapid.IntRange(0, 3).Draw(t, label)
		span *= 4
	}
	return scalePool[v%n]
}

func scaleBucket(n int) string {
	switch {
	case n < 63:
		return ""
	case n <= 129:
		return "64-129"
	case n <= 513:
		return "255-513"
	case n <= 1025:
		return "999-1025"
	case n <= 4097:
		return "2047-4097"
	}
	return "8191+"
}

func scaleLabel(what string, n int) string {
	if b := scaleBucket(n); b != "" {
		return "scale:" + what + ":" + b
	}
	return "scale:" + what + ":below-63"
}

func sizeBucket(n int) string {
	switch {
	case n < 1<<10:
		return "below-1KiB"
	case n < 64<<10:
		return "1-64KiB"
	case n < 1<<20:
		return "64KiB-1MiB"
	case n < 4<<20:
		return "1-4MiB"
	}
	return "4MiB+"
}

// The driver's class histogram keeps the 60 most frequent labels of a sub-check; the
// scale labels are rare by construction, so they are also counted here and written to
// the evidence file as an extra (counts of the shard that reported last).
var (
	scaleMu   sync.Mutex
	scaleSeen = map[string]map[string]int{}
)

func recordScale(sub string, labels []string) {
	scaleMu.Lock()
	defer scaleMu.Unlock()
	m := scaleSeen[sub]
	if m == nil {
		m = map[string]int{}
		scaleSeen[sub] = m
	}
	hit := false
	for _, l := range labels {
		if strings.HasPrefix(l, "scale:") {
			m[l]++
			hit = true
		}
	}
	if hit {
		cp := make(map[string]int, len(m))
		for k, v := range m {
			cp[k] = v
		}
		core.SetExtra("c20"+sub+"_scale_cases_of_one_shard", cp)
	}
}

// Bulk is a run of N generated items (attributes, every BlockEvery-th one a block)
// that is written into the source text in front of (or behind) the generated source.
type Bulk struct {
	N          int  `json:"n"`
	BlockEvery int  `json:"block_every,omitempty"`
	Width      int  `json:"width,omitempty"` // >0: every attribute value is a quoted string of about this many bytes
	Nest       int  `json:"nest,omitempty"`  // the items sit inside this many wrapping blocks
	After      bool `json:"after,omitempty"` // behind the generated source (only with Nest == 0)
}

func bulkName(i int) string { return fmt.Sprintf("bulk_%d", i) }

// bulkItemText: item i of a bulk run as source text; shapes cycle so that comments,
// templates, heredocs, tabs and operators all occur at scale.
func bulkItemText(b *strings.Builder, i int, bl *Bulk) {
	if bl.BlockEvery > 0 && i%bl.BlockEvery == bl.BlockEvery-1 {
		fmt.Fprintf(b, "bulk_blk \"l%d\" {\n  inner = %d\n}\n", i, i)
		return
	}
	n := bulkName(i)
	if bl.Width > 0 {
		fmt.Fprintf(b, "%s = \"%s\"\n", n, strings.Repeat("0123456789abcdef", bl.Width/16+1)[:bl.Width])
		return
	}
	switch i % 8 {
	case 0:
		fmt.Fprintf(b, "%s = %d\n", n, i)
	case 1:
		fmt.Fprintf(b, "%s = \"s%d ${var.foo}\"\n", n, i)
	case 2:
		fmt.Fprintf(b, "%s = [1, 2, x] # c%d\n", n, i)
	case 3:
		fmt.Fprintf(b, "/* c%d */ %s = var.a + %d\n", i, n, i)
	case 4:
		fmt.Fprintf(b, "%s\t=\ttrue\n", n)
	case 5:
		fmt.Fprintf(b, "// lead %d\n%s   =   { k = %d }\n", i, n, i)
	case 6:
		fmt.Fprintf(b, "%s = <<EOT\nline %d ${var.a}\nEOT\n", n, i)
	default:
		fmt.Fprintf(b, "%s=upper(\"v%d\")\n", n, i)
	}
}

func (bl *Bulk) text() string {
	var b strings.Builder
	for d := 0; d < bl.Nest; d++ {
		b.WriteString("bulk_wrap {\n")
	}
	for i := 0; i < bl.N; i++ {
		bulkItemText(&b, i, bl)
	}
	for d := 0; d < bl.Nest; d++ {
		b.WriteString("}\n")
	}
	return b.String()
}

// withBulk is the source text of a case: the generated source with the bulk run in
// front of it or behind it.
func withBulk(src string, bl *Bulk) string {
	if bl == nil || bl.N <= 0 && bl.Nest <= 0 {
		return src
	}
	if bl.After && bl.Nest == 0 {
		if src != "" && !strings.HasSuffix(src, "\n") {
			src += "\n"
		}
		return src + bl.text()
	}
	return bl.text() + src
}

func genBlockEvery(t *rapid.T) int {
	return rapid.SampledFrom([]int{0, 0, 3, 16, 100}).Draw(t, "block-every")
}

// bulkValue: the value that item i of a bulk-append edit is set to.
func bulkValue(i int) (cfggen.Val, cfggen.Type) {
	switch i % 4 {
	case 0:
		return cfggen.Num(fmt.Sprint(i)), cfggen.Type{K: "number"}
	case 1:
		return cfggen.Str(fmt.Sprintf("v%d ${x} \"q\"", i)), cfggen.Type{K: "string"}
	case 2:
		return cfggen.Bool(i%8 == 2), cfggen.Type{K: "bool"}
	}
	e := cfggen.Type{K: "string"}
	return cfggen.List(cfggen.Str("a"), cfggen.Str(fmt.Sprint(i))), cfggen.Type{K: "list", E: &e}
}

// aimedName: an attribute number aimed across a body of about n items: the first
// ones, the last ones, around 255/256, anywhere, or 4 (which is also "the name that
// was removed last", see pickName).
func aimedName(t *rapid.T, n int) int {
	if n < 8 {
		n = 8
	}
	switch rapid.IntRange(0, 7).Draw(t, "aim") {
	case 0:
		return rapid.IntRange(0, 1).Draw(t, "first")
	case 1:
		return n - 1 - rapid.IntRange(0, 2).Draw(t, "last")
	case 2:
		return rapid.IntRange(253, 258).Draw(t, "around-256")
	case 3:
		return rapid.IntRange(0, n-1).Draw(t, "anywhere")
	case 4:
		return -1 // a new name
	}
	return 4
}

// ---------------------------------------------------------------- binary search over scanner tokens

// tokLowerBound: index of the first token with Start >= off (tokens are in source order).
func tokLowerBound(toks []tk, off int) int {
	return sort.Search(len(toks), func(i int) bool { return toks[i].Start >= off })
}

// ---------------------------------------------------------------- (c)

// expandVal repeats the elements of a small collection value up to n elements
// (strings, numbers and map keys are made distinct by the element number so that
// sets and maps really have n members).
func expandVal(v cfggen.Val, n int) cfggen.Val {
	distinct := func(e cfggen.Val, i int) cfggen.Val {
		switch e.K {
		case "s":
			e.S = fmt.Sprintf("%s#%d", e.S, i)
		case "n":
			e.S = fmt.Sprint(i)
		}
		return e
	}
	switch {
	case v.K == "l" && len(v.L) > 0:
		out := cfggen.Val{K: "l", L: make([]cfggen.Val, n)}
		for i := range out.L {
			e := v.L[i%len(v.L)]
			if i >= len(v.L) {
				e = distinct(e, i)
			}
			out.L[i] = e
		}
		return out
	case v.K == "m" && len(v.M) > 0:
		out := cfggen.Val{K: "m", M: make([]cfggen.KV, n)}
		for i := range out.M {
			kv := v.M[i%len(v.M)]
			if i >= len(v.M) {
				kv.K = fmt.Sprintf("%s_%d", kv.K, i)
			}
			out.M[i] = kv
		}
		return out
	}
	return v
}

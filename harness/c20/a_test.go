package c20

// C20(a): P1 + P2.
//
// P1  hclwrite.ParseConfig(src): the unformatted token stream of the tree
//     (File.BuildTokens(nil).Bytes()) equals src byte for byte, except that the
//     bytes *between* two scanner tokens (which the scanner defines to be only
//     spaces and tabs) come back as that many spaces.  File.Bytes() (which formats)
//     equals hclwrite.Format(src).
// P2  fm = hclwrite.Format(src): same scanner tokens (type, bytes) as src, only
//     spaces between them; Format(fm) == fm; fm parses without errors to the same
//     tree (ranges ignored); every attribute evaluates to the same value.

import (
	"bytes"
	"fmt"
	"sort"
	"strings"
	"testing"

	hcl "Havoc/pkg/profile/yaotl"
	"Havoc/pkg/profile/yaotl/hclsyntax"
	"Havoc/pkg/profile/yaotl/hclwrite"

	"pgregory.net/rapid"

	"verifharness/internal/cfggen"
	"verifharness/internal/core"
)

type CaseA struct {
	Origin string   `json:"origin"` // srcgen | schema
	Src    string   `json:"src"`
	Src2   string   `json:"src2,omitempty"` // a second, different file handled in the same case
	Feat   []string `json:"feat,omitempty"`
	// Reuse: what the caller does with each []byte it passed to a parsing entry point
	// after the call returned ("" = nothing; see common_test.go)
	Reuse string `json:"reuse,omitempty"`
	// Bulk: a large run of items written in front of / behind Src (scale cases; see scale_test.go)
	Bulk *Bulk `json:"bulk,omitempty"`
}

func (c *CaseA) source() string { return withBulk(c.Src, c.Bulk) }

// genBulkA: the scale dimension of (a): items per body, nesting depth, file size.
func genBulkA(t *rapid.T) *Bulk {
	bl := &Bulk{}
	switch rapid.SampledFrom([]string{"items", "items", "nesting", "file-size"}).Draw(t, "scale-what") {
	case "items":
		bl.N = genScaleCount(t, "scale-items", 1025, 8193)
		bl.BlockEvery = genBlockEvery(t)
		bl.Nest = rapid.SampledFrom([]int{0, 0, 1, 2}).Draw(t, "bulk-nest")
	case "nesting":
		bl.N = rapid.IntRange(0, 3).Draw(t, "scale-items-small")
		bl.Nest = genScaleCount(t, "scale-nesting", 513, 1025)
	default:
		// N x Width bytes: 1 KiB .. 4 MiB (the large sizes are rare: each costs about a second)
		sizes := []int{1 << 10, 1 << 10, 4 << 10, 4 << 10, 4 << 10, 16 << 10, 16 << 10, 16 << 10, 64 << 10, 64 << 10, 64 << 10, 64 << 10, 256 << 10, 256 << 10, 256 << 10, 1 << 20}
		if core.Tier() == "thorough" {
			sizes = append(sizes, 1<<20, 4<<20)
		}
		size := rapid.SampledFrom(sizes).Draw(t, "scale-file-size")
		bl.N = genScaleCount(t, "scale-items", 1025, 4097)
		bl.Width = size / bl.N
		if bl.Width < 1 {
			bl.Width = 1
		}
		bl.BlockEvery = genBlockEvery(t)
	}
	bl.After = bl.Nest == 0 && rapid.Bool().Draw(t, "bulk-after")
	return bl
}

func genSource(t *rapid.T) (string, string, []string) {
	feat := map[string]int{}
	var src, origin string
	if rapid.IntRange(0, 4).Draw(t, "origin") == 4 {
		// a C19 rendering: schema instance with layout noise, possibly with dynamic blocks
		origin = "schema"
		s := cfggen.GenSchema(t, rapid.IntRange(1, 3).Draw(t, "depth"))
		in := cfggen.GenInstance(t, &s)
		ds := &cfggen.DynState{Stats: feat}
		body := ds.BuildBody(t, &s, &in, 40)
		n := &cfggen.Native{T: t, Noise: true, CRLF: rapid.IntRange(0, 4).Draw(t, "crlf") == 4, Stats: feat}
		src = n.Body(body, 0)
	} else {
		origin = "srcgen"
		g := &cfggen.SrcGen{T: t, CRLF: rapid.IntRange(0, 4).Draw(t, "crlf") == 4, Feat: feat}
		if g.CRLF {
			feat["file:crlf"]++
		}
		src = g.File()
	}
	var fl []string
	for k := range feat {
		fl = append(fl, k)
	}
	sort.Strings(fl)
	return src, origin, fl
}

func genA(t *rapid.T) CaseA {
	src, origin, feat := genSource(t)
	c := CaseA{Origin: origin, Src: src, Feat: feat}
	if oneIn(t, "scale", scaleShareA()) {
		c.Bulk = genBulkA(t)
	}
	c.Reuse = genReuse(t)
	if rapid.IntRange(0, 3).Draw(t, "second-file") > 0 || c.Reuse == reuseOther || c.Reuse == reuseNext {
		c.Src2, _, _ = genSource(t)
	}
	return c
}

// stateA: what the first phase (load, P1) hands to the second (P2), which runs
// after all files of the case have been serialised.
type stateA struct {
	text   string
	reuse  string
	other  string
	toks   []tk
	parsed *hcl.File
	file   *hclwrite.File
	fm     []byte
}

// loadA: P1 for one source; nil state when the source is outside the property.
func loadA(text, reuse, other string, k *keeper) (*stateA, *core.Violation) {
	// the caller's buffer; all oracles below are computed from text / from the scanner's
	// tokens (string copies) before the buffer is used again
	cb := newCallerBuf(reuse, text, other, reuseFallbackConfig)
	src := cb.b
	parsed, pd := hclsyntax.ParseConfig(src, "", startPos)
	if pd.HasErrors() {
		// \uNNNN / \UNNNNNNNN are not escapes of this dialect: the yaotl scanner has \xHH in their place
		// (the property file lists the accepted escapes as \n \r \t \" \\ and \xHH), so such a source is
		// not a syntactically valid file and is outside the property like any other rejected source.
		return nil, nil // not a syntactically valid file: outside the property (counted by classify)
	}
	toks, ok := lex(src)
	if !ok {
		return nil, nil
	}
	// expected P1 bytes from the scanner's own token ranges
	var want bytes.Buffer
	prev := 0
	for _, t := range toks {
		gap := src[prev:t.Start]
		for _, ch := range gap {
			if ch != ' ' && ch != '\t' {
				return nil, nil // scanner contract broken (C17's concern), nothing to assert here
			}
		}
		want.WriteString(strings.Repeat(" ", len(gap)))
		want.WriteString(t.Bytes)
		prev = t.End
	}
	if prev != len(src) {
		return nil, nil
	}

	f, diags := hclwrite.ParseConfig(src, "", startPos)
	if diags.HasErrors() || f == nil {
		return nil, core.V("P1|valid-source-rejected", "hclsyntax.ParseConfig accepts the source, hclwrite.ParseConfig reports: %s\n%s", diags.Error(), clip(text, 3000))
	}
	// both parsers have returned: the caller uses its buffer for what comes next; the
	// writer file and the native tree are looked at only after that
	cb.reuse(func(next []byte) {
		hclsyntax.ParseConfig(next, "", startPos)
		if nf, _ := hclwrite.ParseConfig(next, "", startPos); nf != nil {
			k.keep("Tokens.Bytes", nf.BuildTokens(nil).Bytes())
		}
	})
	src = nil
	got := k.keep("Tokens.Bytes", f.BuildTokens(nil).Bytes())
	if !bytes.Equal(got, want.Bytes()) {
		i := 0
		for i < len(got) && i < want.Len() && got[i] == want.Bytes()[i] {
			i++
		}
		kind := "bytes-differ"
		if len(got) < want.Len() {
			kind = "tokens-lost|" + lossSite(toks, got, parsed.Body.(*hclsyntax.Body))
		} else if len(got) > want.Len() {
			kind = "tokens-duplicated"
		}
		lo := i - 40
		if lo < 0 {
			lo = 0
		}
		return nil, core.V("P1|roundtrip|"+kind, "token stream of the parsed tree differs from the source at byte %d (len %d vs %d)\nwant ...%q\ngot  ...%q\nsource:\n%s", i, want.Len(), len(got), clip(string(want.Bytes()[lo:]), 160), clip(string(got[lo:]), 160), clip(text, 3000))
	}

	fin := newCallerBuf(reuse, text, other, reuseFallbackConfig)
	fm := k.keep("Format", hclwrite.Format(fin.b))
	fin.reuse(func(next []byte) { k.keep("Format", hclwrite.Format(next)) })
	if fb := k.keep("File.Bytes", f.Bytes()); !bytes.Equal(fb, fm) {
		return nil, core.V("P1|File.Bytes-vs-Format", "File.Bytes() of the parsed file differs from Format(src)\nBytes():\n%s\nFormat():\n%s", clip(string(fb), 2000), clip(string(fm), 2000))
	}

	// partial serialisations: root body, expressions, traversals
	k.keep("Body.BuildTokens.Bytes", f.Body().BuildTokens(nil).Bytes())
	attrs := f.Body().Attributes()
	names := make([]string, 0, len(attrs))
	for n := range attrs {
		names = append(names, n)
	}
	sort.Strings(names)
	for i, n := range names {
		if i >= 3 {
			break
		}
		ex := attrs[n].Expr()
		k.keep("Expression.BuildTokens.Bytes", ex.BuildTokens(nil).Bytes())
		if vs := ex.Variables(); len(vs) > 0 {
			k.keep("Traversal.BuildTokens.Bytes", vs[0].BuildTokens(nil).Bytes())
		}
	}
	return &stateA{text: text, reuse: reuse, other: other, toks: toks, parsed: parsed, file: f, fm: fm}, nil
}

// formatA: P2, on the retained result of Format.
func formatA(st *stateA, k *keeper) *core.Violation {
	text, toks, parsed, fm := st.text, st.toks, st.parsed, st.fm
	// the writer file loaded in the first phase is still held: it serialises to the same
	// bytes after everything that happened since (other files loaded, buffers reused)
	if fb := k.keep("File.Bytes", st.file.Bytes()); !bytes.Equal(fb, fm) {
		return core.V("P1|File.Bytes-vs-Format|file-held-across-later-calls", "File.Bytes() of a file that was loaded earlier in the case no longer equals Format(src)\nBytes():\n%s\nFormat():\n%s\nsource:\n%s", clip(string(fb), 2000), clip(string(fm), 2000), clip(text, 2000))
	}
	// ---- P2
	ftoks, fok := lex(fm)
	if !fok {
		return core.V("P2|format|output-does-not-lex", "Format output has scanner errors\n%s\nsource:\n%s", clip(string(fm), 2000), clip(text, 2000))
	}
	if i := sameToks(toks, ftoks); i >= 0 {
		what := "token-changed"
		if i < len(toks) && toks[i].Type == hclsyntax.TokenComment {
			what = "comment-changed"
		}
		return core.V("P2|format|"+what+"|"+strings.ToLower(strings.TrimPrefix(fmt.Sprint(toks[minInt(i, len(toks)-1)].Type), "Token")), "Format changed token %d: %s -> %s\nformatted:\n%s\nsource:\n%s", i, tokAt(toks, i), tokAt(ftoks, i), clip(string(fm), 2000), clip(text, 2000))
	}
	prev := 0
	for _, t := range ftoks {
		for _, ch := range fm[prev:t.Start] {
			if ch != ' ' {
				return core.V("P2|format|non-space-between-tokens", "formatted text has byte %q between tokens at %d\n%s", ch, prev, clip(string(fm), 2000))
			}
		}
		prev = t.End
	}
	if fm2 := k.keep("Format", hclwrite.Format(fm)); !bytes.Equal(fm2, fm) {
		i := 0
		for i < len(fm) && i < len(fm2) && fm[i] == fm2[i] {
			i++
		}
		return core.V("P2|format|not-idempotent", "Format(Format(src)) != Format(src), first difference at byte %d\nonce:\n%s\ntwice:\n%s\nsource:\n%s", i, clip(string(fm), 1500), clip(string(fm2), 1500), clip(text, 1500))
	}
	// fm is a retained result of the library; the parser gets the caller's own copy of it
	pin := &callerBuf{b: fm}
	if st.reuse != reuseNone {
		pin = newCallerBuf(st.reuse, string(fm), st.other, reuseFallbackConfig)
	}
	fparsed, fd := hclsyntax.ParseConfig(pin.b, "", startPos)
	pin.reuse(func(next []byte) { hclsyntax.ParseConfig(next, "", startPos) })
	if fd.HasErrors() {
		return core.V("P2|format|output-does-not-parse", "formatted text has errors: %s\n%s\nsource:\n%s", fd.Error(), clip(string(fm), 2000), clip(text, 2000))
	}
	if a, b := dumpAST(parsed.Body), dumpAST(fparsed.Body); a != b {
		return core.V("P2|format|tree-differs", "formatted text parses to a different tree\nformatted:\n%s\nsource:\n%s", clip(string(fm), 2000), clip(text, 2000))
	}
	ctx := evalContext()
	var ev, fev []attrEval
	evalAll(parsed.Body.(*hclsyntax.Body), ctx, "", &ev)
	evalAll(fparsed.Body.(*hclsyntax.Body), ctx, "", &fev)
	if len(ev) != len(fev) {
		return core.V("P2|format|attribute-count", "%d attributes before, %d after formatting", len(ev), len(fev))
	}
	for i := range ev {
		a, b := ev[i], fev[i]
		if a.pan || b.pan {
			continue // evaluation panics are another property's concern
		}
		if a.path != b.path || a.err != b.err || (!a.err && !a.val.RawEquals(b.val)) {
			return core.V("P2|format|value-differs", "attribute %s evaluates to %#v (errors=%v), after formatting %s = %#v (errors=%v)\nformatted:\n%s\nsource:\n%s", a.path, a.val, a.err, b.path, b.val, b.err, clip(string(fm), 2000), clip(text, 2000))
		}
	}
	return nil
}

func checkA(c CaseA) *core.Violation {
	k := newKeeper()
	var states []*stateA
	full := c.source()
	for i, text := range []string{full, c.Src2} {
		if text == "" && len(states) > 0 {
			continue
		}
		st, v := loadA(text, c.Reuse, []string{c.Src2, full}[i], k)
		if v != nil {
			return k.finish(v)
		}
		if st != nil {
			states = append(states, st)
		}
	}
	// P2 runs on the retained Format results, after every file has been serialised
	for _, st := range states {
		if v := formatA(st, k); v != nil {
			return k.finish(v)
		}
	}
	return k.finish(nil)
}

// lossSite names the place of the first token of src that is missing from the
// tree's token stream: its type and its syntactic position.
func lossSite(toks []tk, got []byte, body *hclsyntax.Body) string {
	gt, _ := lex(got)
	i := sameToks(toks, gt)
	if i < 0 || i >= len(toks) {
		return "unknown"
	}
	lost := toks[i]
	ty := strings.ToLower(strings.TrimPrefix(fmt.Sprint(lost.Type), "Token"))
	var inHeader func(b *hclsyntax.Body) bool
	inHeader = func(b *hclsyntax.Body) bool {
		for _, bl := range b.Blocks {
			if len(bl.LabelRanges) > 0 && lost.Start >= bl.TypeRange.End.Byte && lost.End <= bl.LabelRanges[0].Start.Byte {
				return true
			}
			if inHeader(bl.Body) {
				return true
			}
		}
		return false
	}
	switch {
	case inHeader(body):
		return ty + "|between-block-type-and-first-label"
	case keywordIndexKey(toks, i):
		return "keyword-literal-index-key"
	case i > 0:
		return ty + "|after-" + strings.ToLower(strings.TrimPrefix(fmt.Sprint(toks[i-1].Type), "Token"))
	}
	return ty
}

// keywordIndexKey: token i is the first token inside an index bracket whose only
// non-comment content is true, false or null.
func keywordIndexKey(toks []tk, i int) bool {
	if i == 0 || toks[i-1].Type != hclsyntax.TokenOBrack {
		return false
	}
	n := 0
	for j := i; j < len(toks); j++ {
		switch toks[j].Type {
		case hclsyntax.TokenComment, hclsyntax.TokenNewline:
			continue
		case hclsyntax.TokenIdent:
			if b := toks[j].Bytes; b != "true" && b != "false" && b != "null" {
				return false
			}
			n++
		case hclsyntax.TokenCBrack:
			return n == 1
		default:
			return false
		}
	}
	return false
}

func minInt(a, b int) int {
	if a < b {
		return a
	}
	return b
}

func srcClass(src string) (valid, heredoc, comment, template bool) {
	_, pd := hclsyntax.ParseConfig([]byte(src), "", startPos)
	valid = !pd.HasErrors()
	toks, _ := lex([]byte(src))
	for _, t := range toks {
		switch t.Type {
		case hclsyntax.TokenOHeredoc:
			heredoc = true
		case hclsyntax.TokenComment:
			comment = true
		case hclsyntax.TokenTemplateInterp, hclsyntax.TokenTemplateControl:
			template = true
		}
	}
	return
}

func classifyA(c CaseA) core.Class {
	var cl core.Class
	full := c.source()
	valid, heredoc, comment, template := srcClass(full)
	cl.Labels = append(cl.Labels, "origin:"+c.Origin)
	if !valid {
		cl.Labels = append(cl.Labels, "source:rejected-by-parser(skipped)")
		cl.Fingerprint = "invalid"
		return cl
	}
	cl.Labels = append(cl.Labels, "source:valid", reuseLabel(c.Reuse))
	if bl := c.Bulk; bl != nil {
		if bl.N >= 63 {
			cl.Labels = append(cl.Labels, scaleLabel("items-per-body(source)", bl.N))
		}
		if bl.Nest >= 63 {
			cl.Labels = append(cl.Labels, scaleLabel("block-nesting-depth", bl.Nest))
		}
		cl.Labels = append(cl.Labels, "scale:file-size:"+sizeBucket(len(full)))
	}
	if c.Src2 != "" && c.Src2 != c.Src {
		cl.Labels = append(cl.Labels, "results:two-different-files-serialised")
	} else {
		cl.Labels = append(cl.Labels, "results:one-file-serialised")
	}
	cl.Labels = append(cl.Labels, c.Feat...)
	if heredoc {
		cl.Labels = append(cl.Labels, "has:heredoc")
	}
	if comment {
		cl.Labels = append(cl.Labels, "has:comment")
	}
	if template {
		cl.Labels = append(cl.Labels, "has:template")
	}
	if strings.Contains(c.Src, "\t") {
		cl.Labels = append(cl.Labels, "has:tab")
	}
	if c.Src == "" {
		cl.Labels = append(cl.Labels, "source:empty")
	}
	cl.NonTrivial = heredoc || comment || template
	// abstraction: which of the interesting feature groups occur
	groups := map[string]bool{}
	for _, f := range c.Feat {
		if i := strings.Index(f, ":"); i > 0 {
			switch f[:i] {
			case "tok", "template", "comment", "block":
				groups[f] = true
			}
		}
	}
	var gl []string
	for g := range groups {
		gl = append(gl, g)
	}
	sort.Strings(gl)
	h := 0
	for _, g := range gl {
		for _, ch := range g {
			h = (h*31 + int(ch)) % 251
		}
	}
	cl.Fingerprint = fmt.Sprintf("%s|h=%v|c=%v|t=%v|crlf=%v|nofinalnl=%v|fg=%d", c.Origin, heredoc, comment, template, strings.Contains(c.Src, "\r\n"), !strings.HasSuffix(c.Src, "\n"), h%16)
	recordScale("a", cl.Labels)
	return cl
}

func TestC20a(t *testing.T) {
	core.Run(t, core.Spec[CaseA]{
		Property: "C20", Sub: "a",
		Rule: "source files written from the grammar (all main-mode token kinds, # // /* */ comments, quoted templates and <<X / <<-X heredocs with interpolations, if/for directives and ~ markers, blocks with 0-2 quoted or bare labels, one-line blocks, odd spacing, tabs, blank lines, LF or CRLF, with or without final newline) or noisy renderings of schema instances (C19 renderer, with dynamic blocks); sources that hclsyntax rejects are skipped and counted. Oracle: one or two different files per case, every []byte returned by Tokens.Bytes / File.Bytes / Format / Body, Expression and Traversal token serialisations is retained and must stay what it was after every later call and into the next case; P1: token stream of hclwrite.ParseConfig's tree == source with the space/tab runs between scanner tokens turned into spaces, File.Bytes()==Format(src); P2: Format keeps every token (type, bytes), leaves only spaces between tokens, is idempotent, output parses to the same tree (ranges ignored) and every attribute evaluates to the same value. Non-trivial: the file has a heredoc, a comment or a template sequence; distinct = (origin, heredoc, comment, template, CRLF, missing final newline, hash of token-feature set mod 16). In about half of the cases the caller reuses its input buffers (labels input:caller-reuses-buffer|fill-0xAA / other-source-bytes / next-source-parsed, the other half input:caller-leaves-buffer-alone): as soon as a parsing entry point has returned, the []byte that was passed to it is filled with 0xAA, or overwritten with the bytes of a different generated source of the same length, or truncated and the next source read into the same backing array and parsed; everything obtained from the call is used only after that and must be what it is in the other half (oracles work on a private copy of the text taken before the call). Here: the buffers given to hclwrite.ParseConfig + hclsyntax.ParseConfig (reused before the writer file is serialised for P1 and before the native tree is dumped/evaluated for P2), to Format, and the caller's copy of the formatted text given to hclsyntax.ParseConfig; every writer file loaded in the case is held until all files are loaded and File.Bytes() must then still equal Format(src). SCALE (about 1 case in 100; labels scale:items-per-body(source):<bucket>, scale:block-nesting-depth:<bucket>, scale:file-size:<bucket>, also counted in the evidence extra c20a_scale_cases_of_one_shard): a run of N items (attributes of eight shapes with comments, templates, heredocs, tabs, operators; every 3rd/16th/100th item a labelled block) is written in front of or behind the generated source, at root level or inside 1-2 wrapping blocks, N from the threshold-adjacent pool {63,64,65, 127,128,129, 255,256,257, 511,512,513, 999,1000,1001, 1023,1024,1025, 2047,2048,2049, 4095,4096,4097, 8191,8192,8193} cut at 1025 in the quick tier (thorough: 8193); or 0-3 items inside 63..513 (thorough: 1025) nested blocks; or N<=1025 (thorough: 4097) attributes with string values sized so that the file has 1 KiB .. 1 MiB (thorough: 4 MiB); same oracles P1 and P2 on the whole file",
		Gen:  genA, Check: checkA, Classify: classifyA,
		Assumptions: []string{
			"hclsyntax.ParseConfig decides what a syntactically valid file is; hclsyntax.LexConfig token ranges decide what lies between tokens",
			"a leading UTF-8 BOM is not generated (not a token kind; covered by C17)",
		},
	})
}

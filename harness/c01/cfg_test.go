package c01

// C01(a), configuration / environment dimension (wave 14).
//
// The fixture of a case is built from a GENERATED configuration of the HTTP listener - the options
// (*HTTP).request reads: BehindRedir (profile Demon { TrustXForwardedFor }), Uris, Headers, UserAgent,
// Response headers (HostHeader and Methode are carried along; request() does not read them) - half of the
// cases keep the historical default (nothing configured).  Requests get a generated HTTP LAYER - method,
// request-target, protocol version, header lines, remote address - as a peer controls it; it is written
// to wire bytes and read back by net/http's own request reader (agx.HTTPReq), so the handler sees exactly
// what a socket would deliver.  Half of the generated layers are built to satisfy the listener's filters.
// Environment: time.Local per case; the descriptor limit lowered for one request (the case then runs in a
// child process of its own, because the code under test may end the process); registration metadata with
// kill dates / working hours around the wall clock.
//
// Oracle: the one of C01(a), unchanged.  What a configuration legitimately changes is modelled per HEAD:
// a request that the router does not hand to request() (method other than POST) or that fails the
// configured header / URI / user-agent filter is rejected traffic: decoy 404 (for an empty path gin's own
// redirect), state untouched.

import (
	"bytes"
	"context"
	"encoding/json"
	"fmt"
	"net/http"
	"os"
	"os/exec"
	"path/filepath"
	"regexp"
	"strings"
	"sync"
	"syscall"
	"testing"
	"time"

	"pgregory.net/rapid"

	"verifharness/internal/agx"
	"verifharness/internal/core"
	"verifharness/internal/demonref"
)

type Env struct {
	Zone    string `json:"zone,omitempty"`     // "" = leave time.Local alone; else UTC or +hh:mm / -hh:mm
	FDAt    int    `json:"fd_at"`              // the request handled under a lowered RLIMIT_NOFILE (-1: none)
	FDSpare int    `json:"fd_spare,omitempty"` // descriptors still free when that request starts
	Meta    string `json:"meta,omitempty"`     // kill date / working hours the registered agents announce
}

// ---------------------------------------------------------------- generator: configuration

type named[T any] struct {
	cls string
	v   T
}

var (
	cfgUris = []named[[]string]{
		{"none", nil}, {"none", nil}, {"single-empty", []string{""}}, {"one", []string{"/index.php"}},
		{"two-with-query", []string{"/api/v1/update?id=7", "/js/app.js"}}, {"escaped+root", []string{"/a%20b", "/"}},
		{"long", []string{"/" + strings.Repeat("seg/", 75)}},
	}
	cfgHeaders = []named[[]string]{
		{"none", nil}, {"none", nil}, {"one", []string{"X-Havoc: true"}},
		{"two-value-with-colon", []string{"Content-type: text/plain", "X-Token: a: b"}},
		{"only-ignored", []string{"Connection: Keep-Alive", "Accept-Encoding: gzip"}},
		{"entry-without-colon", []string{"NoColonEntry", "X-Id: 1"}},
		{"empty-value", []string{"X-Empty: "}},
	}
	cfgUA = []named[string]{
		{"none", ""}, {"none", ""}, {"browser", "Mozilla/5.0 (Windows NT 6.1; WOW64) AppleWebKit/537.36 (KHTML, like Gecko) Chrome/96.0.4664.110 Safari/537.36"}, {"short", "curl/8"},
	}
	cfgResp = []named[[]string]{
		{"none", nil}, {"none", nil}, {"plain", []string{"Server: nginx", "Content-Type: text/html"}},
		{"value-with-colon+no-colon", []string{"X-Time: 12:00:01", "NoColon"}}, {"empty-name", []string{": v"}},
	}
	cfgHostHdr = []named[string]{{"none", ""}, {"none", ""}, {"set", "cdn.example.com"}}
	cfgMethode = []named[string]{{"none", ""}, {"none", ""}, {"POST", "POST"}, {"GET", "GET"}}
)

// (uniform: rapid's integer draws favour the ends of a range, and the classes at the end of a pool are the unusual ones)
func pick[T any](t *rapid.T, label string, xs []named[T]) named[T] {
	return upick(t, label, xs)
}

// genCfg: nil (the historical default listener) for half of the cases, else every option drawn on its own.
func genCfg(t *rapid.T) (*agx.HTTPOpts, []string) {
	if rapid.Bool().Draw(t, "cfg-default") {
		return nil, nil
	}
	o := &agx.HTTPOpts{}
	var notes []string
	add := func(opt, cls string) {
		if cls != "none" {
			notes = append(notes, "cfg:"+opt+"="+cls)
		}
	}
	if ubits(t, "cfg-redir", 2) > 0 { // three configured listeners in four sit behind a redirector
		o.BehindRedir = true
		add("TrustXForwardedFor", "on")
	}
	u := pick(t, "cfg-uris", cfgUris)
	o.Uris = u.v
	add("Uris", u.cls)
	h := pick(t, "cfg-headers", cfgHeaders)
	o.Headers = h.v
	add("Headers", h.cls)
	ua := pick(t, "cfg-ua", cfgUA)
	o.UserAgent = ua.v
	add("UserAgent", ua.cls)
	rh := pick(t, "cfg-resp", cfgResp)
	o.RespHeaders = rh.v
	add("Response.Headers", rh.cls)
	hh := pick(t, "cfg-hosthdr", cfgHostHdr)
	o.HostHeader = hh.v
	add("HostHeader", hh.cls)
	m := pick(t, "cfg-methode", cfgMethode)
	o.Methode = m.v
	add("Methode", m.cls)
	return o, notes
}

var zones = []string{"UTC", "+05:30", "-08:00", "+12:00", "+14:00", "-12:00", "+05:45"}
var metas = []string{"killdate-past", "killdate-future", "killdate-now-1s", "killdate-now+1s", "hours-contain-now", "hours-exclude-now", "killdate-past+hours-exclude-now"}

func genEnv(t *rapid.T, nreqs int) *Env {
	e := &Env{FDAt: -1}
	if rapid.Bool().Draw(t, "env-zone?") {
		e.Zone = rapid.SampledFrom(zones).Draw(t, "env-zone")
	}
	if ubits(t, "env-meta?", 2) == 0 {
		e.Meta = rapid.SampledFrom(metas).Draw(t, "env-meta")
	}
	// one case in 64 handles one of its requests with (nearly) no descriptor left
	if ubits(t, "env-fd?", 6) == 0 && nreqs > 0 {
		e.FDAt = rapid.IntRange(0, nreqs-1).Draw(t, "env-fd-at")
		e.FDSpare = upick(t, "env-fd-spare", []int{0, 1, 2})
	}
	if e.Zone == "" && e.Meta == "" && e.FDAt < 0 {
		return nil
	}
	return e
}

func zoneOf(z string) *time.Location {
	if z == "UTC" {
		return time.UTC
	}
	var h, m int
	fmt.Sscanf(z[1:], "%d:%d", &h, &m)
	off := h*3600 + m*60
	if z[0] == '-' {
		off = -off
	}
	return time.FixedZone(z, off)
}

// applyMeta: the kill date (epoch seconds, as the Demon's registration carries it) and the working-hours word
// (common.ParseWorkingHours: enabled<<22 | startHour<<17 | startMin<<11 | endHour<<6 | endMin) relative to NOW.
func applyMeta(m *demonref.MetaData, class string) {
	now := time.Now()
	hours := func(contain bool) uint32 {
		h := now.Hour()
		sh, eh := h, h+1
		if !contain {
			sh, eh = (h+2)%23, (h+2)%23+1
		}
		return 1<<22 | uint32(sh&31)<<17 | uint32(eh&31)<<6
	}
	if strings.Contains(class, "killdate-past") {
		m.KillDate = uint64(now.Unix() - 3600)
	}
	switch class {
	case "killdate-future":
		m.KillDate = uint64(now.Unix() + 86400)
	case "killdate-now-1s":
		m.KillDate = uint64(now.Unix() - 1)
	case "killdate-now+1s":
		m.KillDate = uint64(now.Unix() + 1)
	case "hours-contain-now":
		m.WorkingHours = hours(true)
	}
	if strings.Contains(class, "hours-exclude-now") {
		m.WorkingHours = hours(false)
	}
}

// ---------------------------------------------------------------- generator: the HTTP layer of a request

var (
	long8193    = strings.Repeat("a", 8193)
	genericVals = []named[string]{
		{"empty", ""}, {"blanks-only", "   "}, {"tab-only", "\t"}, {"comma", ","}, {"commas-only", ",,,"}, {"comma-and-blanks", " , "}, {"commas-and-blanks", ", ,  ,"},
		{"list-leading-empty", ", 1.2.3.4"}, {"list-inner-empty", "1.2.3.4,, 5.6.7.8"}, {"list-trailing-empty", "1.2.3.4, "},
		{"long-8193", long8193}, {"long-list", strings.Repeat("1.1.1.1, ", 1000) + "2.2.2.2"}, {"long-commas-8193", strings.Repeat(",", 8193)},
		{"non-ascii", "日本語 ünï"}, {"htab-inside", "a\tb"}, {"control-char(net/http refuses)", "a\x01b"}, {"quoted", "\"x\""}, {"colon-space", "a: b"}, {"plain", "x"},
	}
	xffVals = []named[string]{
		{"ipv4", "203.0.113.7"}, {"ipv4-list", "203.0.113.7, 10.0.0.1, 10.0.0.2"}, {"ipv6", "2001:db8::1"}, {"ipv6-bracket-port", "[2001:db8::1]:443"}, {"ipv6-zone", "fe80::1%eth0"},
		{"ipv4-port", "1.2.3.4:5678"}, {"garbage", "not an ip"}, {"unknown", "unknown"}, {"out-of-range", "999.999.999.999"}, {"ipv4-list-no-blank", "203.0.113.7,10.0.0.1"},
	}
	methodsOther = []string{"GET", "GET", "PUT", "HEAD", "OPTIONS", "DELETE", "PATCH", "CONNECT", "post", "Post", "BREW", "P(ST"}
	remotes      = []named[string]{{"ipv4", ""}, {"ipv4", ""}, {"ipv4", ""}, {"ipv6", "[2001:db8::1]:443"}, {"ipv6-zone", "[fe80::1%eth0]:1234"}}
)

type httpGen struct {
	t      *rapid.T
	cfg    *agx.HTTPOpts
	body   []byte
	r      *agx.HTTPReq
	labels []string
	n      int
}

func (g *httpGen) lbl(s string) string { g.n++; return fmt.Sprintf("%s%d", s, g.n) }
func (g *httpGen) note(s string)       { g.labels = append(g.labels, s) }

func swapCase(s string) string {
	b := []byte(s)
	for i, c := range b {
		switch {
		case c >= 'a' && c <= 'z':
			b[i] = c - 32
		case c >= 'A' && c <= 'Z':
			b[i] = c + 32
		}
	}
	return string(b)
}

func (g *httpGen) cfgNames() [][2]string {
	var out [][2]string
	if g.cfg != nil {
		for _, h := range g.cfg.Headers {
			if nv := strings.SplitN(h, ": ", 2); len(nv) == 2 {
				out = append(out, [2]string{nv[0], nv[1]})
			}
		}
	}
	return out
}

// name draws a header name: the ones HEAD reads, the configured ones, unknown ones; in varying case.
func (g *httpGen) name() (string, string) {
	pool := []string{"X-Forwarded-For", "X-Forwarded-For", "X-Forwarded-For", "X-Forwarded-For", "X-Forwarded-For", "User-Agent", "User-Agent", "Host", "Content-Type", "Content-Length", "Transfer-Encoding", "Connection", "Accept-Encoding", "X-Real-Ip", "Forwarded", "X-Unknown-Header", "Bad Name"}
	for _, nv := range g.cfgNames() {
		pool = append(pool, nv[0], nv[0], nv[0])
	}
	n := upick(g.t, g.lbl("hname"), pool)
	kind := strings.ToLower(n)
	switch kind {
	case "x-real-ip", "forwarded", "x-unknown-header":
		kind = "unknown"
	case "bad name":
		kind = "invalid-name(net/http refuses)"
	}
	for _, nv := range g.cfgNames() {
		if strings.EqualFold(nv[0], n) {
			kind = "configured"
		}
	}
	switch rapid.IntRange(0, 5).Draw(g.t, g.lbl("hcase")) {
	case 0:
		n = strings.ToLower(n)
	case 1:
		n = strings.ToUpper(n)
	}
	return n, kind
}

// value draws a value for a header of the given kind from the value classes.
func (g *httpGen) value(name, kind string) (string, string) {
	gen := func() (string, string) {
		v := pick(g.t, g.lbl("hval"), genericVals)
		return v.v, v.cls
	}
	spec := rapid.IntRange(0, 9).Draw(g.t, g.lbl("hspec")) < 5
	switch {
	case kind == "x-forwarded-for" && spec:
		v := pick(g.t, g.lbl("xff"), xffVals)
		return v.v, v.cls
	case kind == "content-length" && spec:
		n := len(g.body)
		return rapid.SampledFrom([]string{fmt.Sprint(n), "0", fmt.Sprint(n - 1), fmt.Sprint(n + 1), "abc", "99999999999", "+" + fmt.Sprint(n)}).Draw(g.t, g.lbl("clv")), "content-length-class"
	case kind == "transfer-encoding" && spec:
		v := rapid.SampledFrom([]string{"chunked", "chunked", "chunked!", "gzip", "identity", "Chunked"}).Draw(g.t, g.lbl("tev"))
		if v == "chunked!" {
			g.r.ChunkBody = true
			return "chunked", "chunked-and-chunked-body"
		}
		return v, "transfer-encoding-class"
	case kind == "configured" && spec:
		for _, nv := range g.cfgNames() {
			if strings.EqualFold(nv[0], name) {
				if rapid.Bool().Draw(g.t, g.lbl("cfgv-case")) {
					return swapCase(nv[1]), "configured-value-other-case"
				}
				return nv[1], "configured-value"
			}
		}
	case kind == "user-agent" && spec:
		if g.cfg != nil && g.cfg.UserAgent != "" {
			if rapid.Bool().Draw(g.t, g.lbl("ua-case")) {
				return swapCase(g.cfg.UserAgent), "configured-user-agent-other-case"
			}
			return g.cfg.UserAgent, "configured-user-agent"
		}
		return "Mozilla/5.0", "plain"
	case kind == "connection" && spec:
		return rapid.SampledFrom([]string{"close", "keep-alive", "Upgrade"}).Draw(g.t, g.lbl("connv")), "plain"
	case kind == "content-type" && spec:
		return rapid.SampledFrom([]string{"application/octet-stream", "application/x-www-form-urlencoded", "multipart/form-data; boundary=x"}).Draw(g.t, g.lbl("ctv")), "plain"
	case kind == "host" && spec:
		return rapid.SampledFrom([]string{"cdn.example.com", "[fe80::1%25eth0]:80", "a b", "127.0.0.1:443"}).Draw(g.t, g.lbl("hostv")), "host-class"
	}
	return gen()
}

func (g *httpGen) header() {
	n, kind := g.name()
	v, cls := g.value(n, kind)
	g.r.Headers = append(g.r.Headers, [2]string{n, v})
	g.note("hdr:" + kind)
	if kind == "x-forwarded-for" {
		g.note("xff:" + cls)
	} else {
		g.note("hval:" + cls)
	}
}

func (g *httpGen) targets() []named[string] {
	ts := []named[string]{
		{"root", "/"}, {"root", "/"}, {"long-8193", "/" + long8193}, {"percent-nul", "/%00"}, {"percent-slash-dotdot", "/a%2f..%2fb"}, {"double-slash", "//"}, {"dotdot", "/../../etc/passwd"}, {"dot", "/./"},
		{"raw-nul(net/http refuses)", "/a\x00b"}, {"bad-escape(net/http refuses)", "/%zz"}, {"absolute-form", "http://evil.example/x"}, {"absolute-form-empty-path", "http://evil.example"}, {"asterisk", "*"},
		{"long-query", "/?" + long8193}, {"non-ascii", "/é"}, {"fragment", "/index.php#frag"},
	}
	if g.cfg != nil {
		for _, u := range g.cfg.Uris {
			if u != "" {
				ts = append(ts, named[string]{"configured-uri", u}, named[string]{"configured-uri", u}, named[string]{"configured-uri+query", u + "?x=1"}, named[string]{"configured-uri+slash", u + "/"}, named[string]{"configured-uri-in-absolute-form", "http://evil.example" + u})
			}
		}
	}
	return ts
}

// genHTTP draws the HTTP layer of one request.  conform: built to pass the listener's filters (the
// configured target, header lines and user agent, plus generated lines before or after them).
func genHTTP(t *rapid.T, cfg *agx.HTTPOpts, body []byte) (*agx.HTTPReq, []string) {
	g := &httpGen{t: t, cfg: cfg, body: body, r: &agx.HTTPReq{}}
	conform := rapid.Bool().Draw(t, "http-conform")
	var base *agx.HTTPReq
	if conform {
		g.note("http:built-to-pass-the-filters")
		if base = cfg.Conforming(); base != nil {
			g.r.Target = base.Target
			if cfg != nil {
				// any of the configured URIs
				var us []string
				for _, u := range cfg.Uris {
					if u != "" {
						us = append(us, u)
					}
				}
				if len(us) > 0 {
					g.r.Target = us[rapid.IntRange(0, len(us)-1).Draw(t, "http-uri")]
				}
			}
		}
	} else {
		if rapid.IntRange(0, 2).Draw(t, "http-method?") == 0 {
			g.r.Method = upick(t, "http-method", methodsOther)
			m := g.r.Method
			if m == "P(ST" {
				m = "invalid(net/http refuses)"
			}
			g.note("method:" + m)
		}
		if rapid.Bool().Draw(t, "http-target?") {
			tg := pick(t, "http-target", g.targets())
			g.r.Target = tg.v
			g.note("target:" + tg.cls)
		}
	}
	switch rapid.IntRange(0, 19).Draw(t, "http-proto") {
	case 0, 1:
		g.r.Proto = "HTTP/1.0"
		g.note("proto:HTTP/1.0")
	case 2:
		g.r.NoHost = true
		g.note("proto:HTTP/1.1-without-Host(net/http refuses)")
	case 3:
		g.r.Proto = "HTTP/1.0"
		g.r.NoHost = true
		g.note("proto:HTTP/1.0-without-Host")
	}
	rm := pick(t, "http-remote", remotes)
	g.r.Remote = rm.v
	if rm.v != "" {
		g.note("remote:" + rm.cls)
	}
	// header lines
	switch k := rapid.IntRange(0, 15).Draw(t, "http-nhdr"); {
	case k == 0: // many lines of one name
		n, kind := g.name()
		count := rapid.SampledFrom([]int{64, 65, 1024, 1025}).Draw(t, "http-many")
		same := rapid.Bool().Draw(t, "http-many-same")
		v, cls := g.value(n, kind)
		for i := 0; i < count; i++ {
			if same {
				g.r.Headers = append(g.r.Headers, [2]string{n, v})
			} else {
				g.r.Headers = append(g.r.Headers, [2]string{n, fmt.Sprintf("10.0.%d.%d", i/256, i%256)})
			}
		}
		if !same {
			cls = "distinct-addresses"
		}
		g.note("hdr:" + kind)
		g.note(fmt.Sprintf("hdr-repeated:%d", count))
		if kind == "x-forwarded-for" {
			g.note("xff:" + cls)
		}
	case k <= 2:
	default:
		for i := 0; i < 1+k%4; i++ {
			g.header()
		}
	}
	// behind a redirector every request carries the line the redirector adds (three generated layers in four)
	if cfg != nil && cfg.BehindRedir && ubits(t, "http-xff-line", 2) > 0 {
		v, cls := g.value("X-Forwarded-For", "x-forwarded-for")
		g.r.Headers = append(g.r.Headers, [2]string{"X-Forwarded-For", v})
		g.note("hdr:x-forwarded-for")
		g.note("xff:" + cls)
	}
	if base != nil {
		if rapid.Bool().Draw(t, "http-base-first") {
			g.r.Headers = append(append([][2]string(nil), base.Headers...), g.r.Headers...)
		} else {
			g.r.Headers = append(g.r.Headers, base.Headers...)
			g.note("http:configured-lines-after-generated")
		}
	}
	return g.r, g.labels
}

// ---------------------------------------------------------------- model of HEAD's listener front end

// routed: does the listener's router hand the request to (*HTTP).request?  (POST "/*endpoint"; GET goes to
// the decoy; every other method and a path that does not start with "/" to gin's own 404 or redirect)
func routed(req *http.Request) bool {
	return req.Method == http.MethodPost && strings.HasPrefix(req.URL.Path, "/")
}

// passesFilters mirrors the checks at the top of (*HTTP).request.
func passesFilters(o *agx.HTTPOpts, req *http.Request) bool {
	if o == nil {
		return true
	}
	for _, h := range o.Headers {
		nv := strings.SplitN(h, ": ", 2)
		if len(nv) < 2 {
			continue
		}
		if ln := strings.ToLower(nv[0]); ln == "connection" || ln == "accept-encoding" {
			continue
		}
		if strings.ToLower(req.Header.Get(nv[0])) != strings.ToLower(nv[1]) {
			return false
		}
	}
	if len(o.Uris) > 0 && !(len(o.Uris) == 1 && o.Uris[0] == "") {
		ok := false
		for _, u := range o.Uris {
			if req.RequestURI == u {
				ok = true
			}
		}
		if !ok {
			return false
		}
	}
	if o.UserAgent != "" && o.UserAgent != req.UserAgent() {
		return false
	}
	return true
}

// ---------------------------------------------------------------- environment: descriptor limit, child process

// childFD: set in the child process that runs a case whose Env lowers the descriptor limit.
var childFD = struct {
	on        bool
	at, spare int
}{}

var fdNoVerdict struct {
	sync.Mutex
	n int
}

func noVerdict() {
	fdNoVerdict.Lock()
	fdNoVerdict.n++
	n := fdNoVerdict.n
	fdNoVerdict.Unlock()
	core.SetExtra("a_env_fd_limit_no_verdict_last_shard", n)
}

// withFDLimit runs f with RLIMIT_NOFILE lowered so that spare more descriptors can be opened.
func withFDLimit(spare int, f func()) {
	var old syscall.Rlimit
	if syscall.Getrlimit(syscall.RLIMIT_NOFILE, &old) != nil {
		f()
		return
	}
	probe, err := os.Open("/dev/null")
	if err != nil {
		f()
		return
	}
	lowest := int(probe.Fd())
	probe.Close()
	lim := old
	lim.Cur = uint64(lowest + spare)
	if syscall.Setrlimit(syscall.RLIMIT_NOFILE, &lim) != nil {
		f()
		return
	}
	defer syscall.Setrlimit(syscall.RLIMIT_NOFILE, &old)
	f()
}

type childResult struct {
	Done bool   `json:"done"`
	Sig  string `json:"sig,omitempty"`
	Msg  string `json:"msg,omitempty"`
}

var (
	reStamp = regexp.MustCompile(`^\d{4}/\d\d/\d\d \d\d:\d\d:\d\d `)
	rePath  = regexp.MustCompile(`/\S*/`)
	reHexID = regexp.MustCompile(`[0-9a-f]{8}`)
)

// runInChild evaluates the case in a process of its own: a request handled without free descriptors may end
// the process (log.Fatal), which must become a verdict about that request, not the end of the shard.
func runInChild(c Case) *core.Violation {
	dir, err := os.MkdirTemp(agx.ScratchBase(), "c01child-")
	if err != nil {
		noVerdict()
		return nil
	}
	defer os.RemoveAll(dir)
	cf := filepath.Join(dir, "case.json")
	b, _ := json.Marshal(c)
	if os.WriteFile(cf, b, 0o644) != nil {
		noVerdict()
		return nil
	}
	ctx, cancel := context.WithTimeout(context.Background(), 150*time.Second)
	defer cancel()
	cmd := exec.CommandContext(ctx, os.Args[0], "-test.run", "^TestC01Child$", "-test.count=1", "-test.timeout=140s")
	cmd.Dir = dir
	cmd.Env = append(os.Environ(), "C01_CHILD_CASE="+cf, "AGX_SCRATCH="+dir, "VERIF_OUT=", "VERIF_REPLAY=")
	out, runErr := cmd.CombinedOutput()
	if rb, err := os.ReadFile(cf + ".result"); err == nil {
		var res childResult
		if json.Unmarshal(rb, &res) == nil && res.Done {
			if res.Sig == "" {
				return nil
			}
			return &core.Violation{Sig: res.Sig, Msg: res.Msg}
		}
	}
	if _, isExit := runErr.(*exec.ExitError); !isExit || ctx.Err() != nil {
		// the child could not be started, or did not finish in time: the harness cannot continue with this case
		noVerdict()
		return nil
	}
	if _, err := os.Stat(cf + ".started"); err != nil {
		noVerdict() // died before the case was even read
		return nil
	}
	last := ""
	for _, ln := range strings.Split(string(out), "\n") {
		if s := strings.TrimSpace(ln); s != "" && !strings.HasPrefix(s, "FAIL") && !strings.HasPrefix(s, "exit status") && !strings.HasPrefix(s, "ok ") {
			last = s
		}
	}
	last = reStamp.ReplaceAllString(last, "")
	last = rePath.ReplaceAllString(last, "")
	last = reHexID.ReplaceAllString(last, "<id>")
	if len(last) > 90 {
		last = last[:90]
	}
	tail := string(out)
	if len(tail) > 3000 {
		tail = tail[len(tail)-3000:]
	}
	return core.V("process-exit|fd-limit|"+last, "request %d of the case was handled with RLIMIT_NOFILE lowered to %d free descriptor(s): the process ended (%v) instead of answering:\n%s", c.Env.FDAt, c.Env.FDSpare, runErr, tail)
}

func TestC01Child(t *testing.T) {
	cf := os.Getenv("C01_CHILD_CASE")
	if cf == "" {
		t.Skip("helper of TestC01: runs one case in a process of its own")
	}
	b, err := os.ReadFile(cf)
	if err != nil {
		t.Fatal(err)
	}
	var c Case
	if err := json.Unmarshal(b, &c); err != nil {
		t.Fatal(err)
	}
	if c.Env == nil {
		t.Fatal("no environment in the case")
	}
	childFD.on, childFD.at, childFD.spare = true, c.Env.FDAt, c.Env.FDSpare
	os.WriteFile(cf+".started", []byte("1"), 0o644)
	v := core.Guard(func() *core.Violation { return check(c) })
	res := childResult{Done: true}
	if v != nil {
		res.Sig, res.Msg = v.Sig, v.Msg
	}
	rb, _ := json.Marshal(res)
	if err := os.WriteFile(cf+".result", rb, 0o644); err != nil {
		t.Fatal(err)
	}
}

// ---------------------------------------------------------------- labels

var (
	cfgStatMu sync.Mutex
	cfgStat   = map[string]int{}
)

// cfgLabels: the labels of the configuration / environment / HTTP-layer dimension; also published as an extra
// counter, because the driver's histogram keeps only the most frequent labels of a sub-check.
func cfgLabels(c Case) []string {
	var ls []string
	if c.Cfg == nil {
		ls = append(ls, "cfg:default-listener")
	} else {
		ls = append(ls, "cfg:configured-listener")
		ls = append(ls, c.CfgNote...)
	}
	if c.Env != nil {
		if c.Env.Zone != "" {
			ls = append(ls, "env:time.Local="+c.Env.Zone)
		}
		if c.Env.Meta != "" {
			ls = append(ls, "env:agent-metadata="+c.Env.Meta)
		}
		if c.Env.FDAt >= 0 {
			ls = append(ls, "env:RLIMIT_NOFILE-lowered-for-one-request", fmt.Sprintf("env:RLIMIT_NOFILE-free-descriptors=%d", c.Env.FDSpare))
		}
	}
	for _, r := range c.Reqs {
		if r.HTTP != nil {
			ls = append(ls, "http:generated-layer")
			ls = append(ls, r.HLabels...)
			if c.Cfg != nil && c.Cfg.BehindRedir {
				for _, l := range r.HLabels {
					if strings.HasPrefix(l, "xff:") {
						ls = append(ls, "cfg:TrustXForwardedFor=on+"+l)
					}
				}
			}
		}
	}
	cfgStatMu.Lock()
	for _, l := range ls {
		cfgStat[l]++
	}
	cp := make(map[string]int, len(cfgStat))
	for k, v := range cfgStat {
		cp[k] = v
	}
	cfgStatMu.Unlock()
	core.SetExtra("a_cfg_env_http_label_counts_last_shard", cp)
	return ls
}

var _ = bytes.Equal

// httpNote describes the generated HTTP layer of a request for a violation message.
func httpNote(r Req) string {
	if r.HTTP == nil {
		return ""
	}
	h := *r.HTTP
	var hs []string
	for i, kv := range h.Headers {
		if i == 6 {
			hs = append(hs, fmt.Sprintf("... %d lines", len(h.Headers)))
			break
		}
		v := kv[1]
		if len(v) > 40 {
			v = fmt.Sprintf("%s...(%d bytes)", v[:40], len(v))
		}
		hs = append(hs, fmt.Sprintf("%s: %q", kv[0], v))
	}
	tg := h.Target
	if len(tg) > 60 {
		tg = fmt.Sprintf("%s...(%d bytes)", tg[:60], len(tg))
	}
	return fmt.Sprintf("; HTTP layer: method=%q target=%q proto=%q remote=%q headers=[%s]", h.Method, tg, h.Proto, h.Remote, strings.Join(hs, "; "))
}

package c01

// C01(d): states with REGISTERED third-party agent types.
//
// A real Teamserver with a Service block; a live service client, connected over the real
// service websocket (route registered by (*service.Service).Start, real authentication and
// dispatch), registers 1-2 agent types whose MagicValue STRING is drawn from spelling
// classes, optionally registers a third-party session, and answers the AgentResponse
// requests the listener relays to it (at once, late, or a second time after the request
// is over); it may also disconnect between two requests, or close its websocket INSTEAD
// of answering one or two pending relayed requests and come back afterwards.
// A Demon session is registered in the same teamserver.
//
// Requests go through the HTTP listener engine and the External-C2 handler: packages whose
// header carries the registered magic as a NUMBER (every spelling denotes one), the magic
// one off, byte-swapped, the Demon magic; for registered / unregistered third-party agent
// ids and the Demon's id; truncated at every length 0-24, full length, with a wrong size
// field and trailing bytes; plus ordinary Demon check-ins of the registered Demon.
//
// Oracle = C01's: every request ends with status 200 or 404, no panic, returns within the
// watchdog, no agent mutex left held, a later Demon check-in still works, and traffic that
// is neither valid Demon traffic nor REGISTERED third-party traffic gets the decoy and
// leaves sessions, queues, database and loot untouched.  What counts as registered is
// HEAD's rule (cmd/server/service.go ServiceAgent / ServiceAgentExist): a connected
// service registered a type whose MagicValue string EQUALS fmt.Sprintf("0x%x", magic) -
// i.e. only the canonical spelling (lower-case digits, "0x", no leading zeros) is ever
// reachable; every other spelling is an unregistered magic.  Registered traffic (>= 16
// bytes) is answered 200 with exactly the bytes the service answered.

import (
	"encoding/base64"
	"encoding/binary"
	"encoding/json"
	"fmt"
	"net/http/httptest"
	"strings"
	"sync"
	"testing"
	"time"

	"Havoc/pkg/agent"
	"Havoc/pkg/profile"
	"Havoc/pkg/service"

	"github.com/gorilla/websocket"
	"pgregory.net/rapid"

	"verifharness/internal/agx"
	"verifharness/internal/core"
	"verifharness/internal/demonref"
	"verifharness/internal/svcx"
	"verifharness/internal/tsx"
)

// ---------------------------------------------------------------- case

type TypeD struct {
	Number   uint32 `json:"number"`   // the number the spelling denotes (what agents put into the header)
	Spelling string `json:"spelling"` // class name
	Magic    string `json:"magic"`    // the MagicValue string the service registers
}

type ReqD struct {
	Kind    string `json:"kind"`    // tp | demon-checkin | demon-output
	Via     string `json:"via"`     // http ext
	Type    int    `json:"type"`    // tp: which registered type's number the magic is derived from
	Mut     string `json:"mut"`     // tp: exact plus1 minus1 swapped demon
	IDKind  string `json:"id_kind"` // tp: tp-session | unknown | demon-session
	Len     int    `json:"len"`     // tp: total length of the package
	BadSize bool   `json:"bad_size,omitempty"`
	Payload []byte `json:"payload,omitempty"` // bytes after the 12-byte header (cut/extended to Len)
	Answer  string `json:"answer,omitempty"`  // how the service answers if the request reaches it: now late twice close-clean close-abrupt
	Pair    bool   `json:"pair,omitempty"`    // close-*: a second request (other agent id, other entry point) is pending at the same time
	Leave   string `json:"leave,omitempty"`   // "" | clean | abrupt: the service disconnects AFTER this request
}

type CaseD struct {
	Types     []TypeD `json:"types"`      // 1-2
	TPSession bool    `json:"tp_session"` // the service registered a third-party session (id tpSessionID)
	DemonState string `json:"demon_state,omitempty"` // what the Demon session carries: "" | smb-child | downloads | smb-child+downloads
	Reqs      []ReqD  `json:"reqs"`
}

const (
	tpSessionID = 0x0a0a0a01
	tpUnknownID = 0x0b0b0b02
	svcTag      = "svc|"
)

var magicNumbers = []uint32{0xcafebabe, 0x0badf00d, 0x41414141, 0x12345678, 0x000000a1, 0xfffffffe, demonref.Magic}

var spellings = []string{"canonical", "upper-digits", "upper-prefix", "leading-zeros", "no-prefix", "whitespace", "decimal", "empty"}

func spell(n uint32, class string) string {
	switch class {
	case "canonical": // Python's hex(): what havoc-py services send
		return fmt.Sprintf("0x%x", n)
	case "upper-digits":
		return fmt.Sprintf("0x%X", n)
	case "upper-prefix":
		return fmt.Sprintf("0X%x", n)
	case "leading-zeros":
		return fmt.Sprintf("0x%08x", n) + ""
	case "no-prefix":
		return fmt.Sprintf("%x", n)
	case "whitespace":
		return fmt.Sprintf(" 0x%x\n", n)
	case "decimal":
		return fmt.Sprintf("%d", n)
	}
	return ""
}

func genD(t *rapid.T) CaseD {
	var c CaseD
	nt := rapid.IntRange(1, 2).Draw(t, "ntypes")
	for i := 0; i < nt; i++ {
		ty := TypeD{Number: rapid.SampledFrom(magicNumbers).Draw(t, "number")}
		// half of the types are canonical: registered traffic must be exercised as much as the near misses
		if rapid.Bool().Draw(t, "canonical") {
			ty.Spelling = "canonical"
		} else {
			ty.Spelling = rapid.SampledFrom(spellings).Draw(t, "spelling")
		}
		if ty.Spelling == "leading-zeros" && ty.Number >= 0x10000000 {
			ty.Magic = fmt.Sprintf("0x0%x", ty.Number) // an 8-digit number has no leading zero of its own
		} else {
			ty.Magic = spell(ty.Number, ty.Spelling)
		}
		c.Types = append(c.Types, ty)
	}
	c.TPSession = rapid.Bool().Draw(t, "tpsession")
	c.DemonState = rapid.SampledFrom([]string{"", "", "smb-child", "downloads", "smb-child+downloads"}).Draw(t, "demonstate")
	n := rapid.IntRange(1, 6).Draw(t, "nreqs")
	for i := 0; i < n; i++ {
		r := ReqD{Via: rapid.SampledFrom([]string{"http", "http", "ext"}).Draw(t, "via")}
		switch k := rapid.IntRange(0, 9).Draw(t, "kind"); {
		case k == 0:
			r.Kind = "demon-checkin"
		case k == 1:
			r.Kind = "demon-output"
		default:
			r.Kind = "tp"
			r.Type = rapid.IntRange(0, nt-1).Draw(t, "type")
			r.Mut = rapid.SampledFrom([]string{"exact", "exact", "exact", "exact", "plus1", "minus1", "swapped", "demon"}).Draw(t, "mut")
			r.IDKind = rapid.SampledFrom([]string{"tp-session", "unknown", "demon-session", "demon-session", "demon-child"}).Draw(t, "idkind")
			if rapid.IntRange(0, 2).Draw(t, "truncated") == 0 {
				r.Len = rapid.IntRange(0, 24).Draw(t, "len")
			} else {
				r.Len = 16 + rapid.IntRange(0, 48).Draw(t, "extra")
			}
			r.BadSize = rapid.IntRange(0, 3).Draw(t, "badsize") == 0
			r.Payload = rapid.SliceOfN(rapid.Byte(), 0, 16).Draw(t, "payload")
			r.Answer = rapid.SampledFrom([]string{"now", "now", "now", "late", "twice", "close-clean", "close-abrupt"}).Draw(t, "answer")
			if strings.HasPrefix(r.Answer, "close-") {
				r.Pair = rapid.Bool().Draw(t, "pair")
			}
		}
		if rapid.IntRange(0, 11).Draw(t, "leave") == 0 {
			r.Leave = rapid.SampledFrom([]string{"clean", "abrupt"}).Draw(t, "leavehow")
		}
		c.Reqs = append(c.Reqs, r)
	}
	return c
}

// magicOf returns the number a tp request carries in its header.
func (c CaseD) magicOf(r ReqD) uint32 {
	n := c.Types[((r.Type%len(c.Types))+len(c.Types))%len(c.Types)].Number
	switch r.Mut {
	case "plus1":
		return n + 1
	case "minus1":
		return n - 1
	case "swapped":
		return n<<24 | (n<<8)&0xff0000 | (n>>8)&0xff00 | n>>24
	case "demon":
		return demonref.Magic
	}
	return n
}

func (c CaseD) build(r ReqD) []byte {
	id := uint32(tpUnknownID)
	switch r.IDKind {
	case "tp-session":
		id = tpSessionID
	case "demon-session":
		id = agentIDs[0]
	case "demon-child":
		id = childID // the Demon's SMB child when the state has one, an unknown id otherwise
	}
	l := r.Len
	if l < 0 {
		l = 0
	}
	if l > 4096 {
		l = 4096
	}
	full := make([]byte, 12, 12+l)
	binary.BigEndian.PutUint32(full[4:], c.magicOf(r))
	binary.BigEndian.PutUint32(full[8:], id)
	for len(full) < l || len(full) < 12 {
		if len(r.Payload) == 0 {
			full = append(full, 'A')
		} else {
			full = append(full, r.Payload[(len(full)-12)%len(r.Payload)])
		}
	}
	// a package carrying the Demon magic must not look like a registration (command 99 in the
	// first payload word): that is class C of C01(a), not this sub-check
	if c.magicOf(r) == demonref.Magic && len(full) >= 16 && binary.BigEndian.Uint32(full[12:16]) == demonref.CmdInit {
		full[15] ^= 0x40
	}
	size := uint32(0)
	if l >= 4 {
		size = uint32(l - 4)
	}
	if r.BadSize {
		size = size*3 + 7
	}
	binary.BigEndian.PutUint32(full[0:], size)
	return full[:l]
}

// ---------------------------------------------------------------- the service script

type svcClient struct {
	conn *websocket.Conn
	wmu  sync.Mutex

	mu      sync.Mutex
	answer  string   // how to answer the next relayed request
	relayed [][]byte // payloads of the requests relayed so far
	again   []map[string]any
	replies map[string]chan map[string]map[string]any
	seq     int
	done    chan struct{}
}

func (s *svcClient) send(v any) error {
	s.wmu.Lock()
	defer s.wmu.Unlock()
	return s.conn.WriteJSON(v)
}

func (s *svcClient) reader() {
	defer close(s.done)
	for {
		_, data, err := s.conn.ReadMessage()
		if err != nil {
			return
		}
		var m map[string]map[string]any
		if json.Unmarshal(data, &m) != nil {
			continue
		}
		if rid, ok := m["Head"]["RequestID"].(string); ok {
			s.mu.Lock()
			ch := s.replies[rid]
			s.mu.Unlock()
			if ch != nil {
				ch <- m
			}
			continue
		}
		if m["Head"]["Type"] == "Agent" && m["Body"]["Type"] == "AgentResponse" {
			// agent.go SendResponse: the listener relays an agent request and waits for the answer
			rid, _ := m["Body"]["RandID"].(string)
			b64, _ := m["Body"]["Response"].(string)
			raw, _ := base64.StdEncoding.DecodeString(b64)
			s.mu.Lock()
			how := s.answer
			s.relayed = append(s.relayed, raw)
			s.mu.Unlock()
			reply := map[string]any{"Head": map[string]any{"Type": "Agent"}, "Body": map[string]any{
				"Type": "AgentResponse", "RandID": rid, "Response": base64.StdEncoding.EncodeToString(append([]byte(svcTag), raw...))}}
			if how == "hold" {
				continue // the script is about to close the websocket instead of answering
			}
			if how == "late" {
				time.Sleep(15 * time.Millisecond)
			}
			s.send(reply)
			if how == "twice" {
				s.mu.Lock()
				s.again = append(s.again, reply)
				s.mu.Unlock()
			}
		}
	}
}

// barrier returns once the teamserver has dispatched everything this client sent before:
// routine() handles one message at a time, and an External-C2 registration under the name of
// the existing listener "http" is refused (nothing changes) and answered.
func (s *svcClient) barrier() error {
	s.mu.Lock()
	s.seq++
	rid := fmt.Sprintf("barrier-%d", s.seq)
	ch := make(chan map[string]map[string]any, 1)
	s.replies[rid] = ch
	s.mu.Unlock()
	if err := s.send(map[string]any{"Head": map[string]any{"Type": "Listener", "RequestID": rid}, "Body": map[string]any{"Type": "ListenerAddExC2", "Name": "http", "Endpoint": "barrier"}}); err != nil {
		return err
	}
	select {
	case m := <-ch:
		if ex, _ := m["Body"]["ExC2"].(map[string]any); ex != nil {
			if ok, _ := ex["Success"].(bool); ok {
				return fmt.Errorf("barrier registration unexpectedly accepted")
			}
		}
		return nil
	case <-s.done:
		return fmt.Errorf("service connection closed")
	case <-time.After(60 * time.Second):
		return fmt.Errorf("no reply to the barrier message within 60 s")
	}
}

func (s *svcClient) leave(abrupt bool) {
	if !abrupt {
		s.wmu.Lock()
		s.conn.WriteControl(websocket.CloseMessage, websocket.FormatCloseMessage(websocket.CloseNormalClosure, ""), time.Now().Add(time.Second))
		s.wmu.Unlock()
	}
	s.conn.Close()
	<-s.done
}

const handleConnFrame = "service.(*Service).handleConnection"

// waitServiceGone waits until the teamserver's goroutine for the service connection has ended
// (ClientClose has unregistered the types).  Synchronisation only.
func waitServiceGone() bool {
	dl := time.Now().Add(30 * time.Second)
	for svcx.CountGoroutines(handleConnFrame) > 0 {
		if time.Now().After(dl) {
			return false
		}
		time.Sleep(300 * time.Microsecond)
	}
	return true
}

// ---------------------------------------------------------------- check

func checkD(c CaseD) *core.Violation {
	if len(c.Types) == 0 {
		return nil
	}
	prof := tsx.BasicProfile(map[string]string{"op": "pw"}, &profile.ServiceConfig{Endpoint: "svc", Password: "svcpw"})
	w, err := agx.NewWorld(prof)
	if err != nil {
		panic("infrastructure: " + err.Error())
	}
	defer w.Close()
	// what Start() does for a profile with a Service block (teamserver.go:193-203), websocket route included
	w.TS.Service = service.NewService(w.TS.Server.Engine)
	w.TS.Service.Teamserver = w.TS
	w.TS.Service.Data.ServerAgents = &w.TS.Agents
	w.TS.Service.Config = *prof.Config.Service
	w.TS.Service.Start()
	srv := httptest.NewServer(w.TS.Server.Engine)
	defer srv.Close()

	// connectService plays the start of a service script: connect, authenticate, register the agent
	// types (havoc-py AgentType.get_dict() shape) and, the first time, the third-party session.
	connectService := func(first bool) (*svcClient, error) {
		conn, _, err := websocket.DefaultDialer.Dial("ws"+strings.TrimPrefix(srv.URL, "http")+"/svc", nil)
		if err != nil {
			return nil, err
		}
		sc := &svcClient{conn: conn, answer: "now", replies: map[string]chan map[string]map[string]any{}, done: make(chan struct{})}
		if err := conn.WriteJSON(map[string]any{"Head": map[string]any{"Type": "Register"}, "Body": map[string]any{"Password": "svcpw"}}); err != nil {
			conn.Close()
			return nil, err
		}
		var auth map[string]map[string]any
		conn.SetReadDeadline(time.Now().Add(60 * time.Second))
		if err := conn.ReadJSON(&auth); err != nil {
			conn.Close()
			return nil, err
		}
		conn.SetReadDeadline(time.Time{})
		if ok, _ := auth["Body"]["Success"].(bool); !ok {
			conn.Close()
			return nil, fmt.Errorf("service authentication refused")
		}
		go sc.reader()
		for i, ty := range c.Types {
			sc.send(map[string]any{"Head": map[string]any{"Type": "RegisterAgent"}, "Body": map[string]any{"Agent": map[string]any{
				"Name": fmt.Sprintf("tp%d", i), "MagicValue": ty.Magic, "Author": "verif", "Description": "generated",
				"Formats": []any{map[string]any{"Name": "Exe", "Extension": "exe"}}, "SupportedOS": []any{"linux"},
				"Commands": []any{}, "BuildingConfig": map[string]any{"Sleep": "10"},
			}}})
		}
		if first && c.TPSession {
			sc.send(map[string]any{"Head": map[string]any{"Type": "Agent"}, "Body": map[string]any{"Type": "AgentRegister",
				"AgentHeader":  map[string]any{"Size": "64", "MagicValue": fmt.Sprintf("%x", c.Types[0].Number&0x7fffffff), "AgentID": fmt.Sprintf("%08x", tpSessionID)},
				"RegisterInfo": map[string]any{"Hostname": "tp-host", "Username": "bob", "Domain": "corp", "InternalIP": "10.0.0.9", "Process Path": "/bin/tp", "Process Name": "tp", "Process Arch": "x64", "Process ID": "77", "Process Parent ID": "1", "Process Elevated": "0", "OS Version": "10.0.0.0.0", "OS Build": "1", "OS Arch": "x64", "SleepDelay": "5"},
			}})
		}
		if err := sc.barrier(); err != nil {
			sc.leave(true)
			return nil, err
		}
		if got := len(w.TS.Service.Agents); got != len(c.Types) {
			sc.leave(true)
			return nil, fmt.Errorf("%d agent types registered, sent %d", got, len(c.Types))
		}
		return sc, nil
	}
	sc, err := connectService(true)
	if err != nil {
		panic("infrastructure: service script: " + err.Error())
	}
	connected := true
	defer func() {
		if connected {
			sc.leave(true)
		}
		waitServiceGone()
	}()

	// a Demon session in the same teamserver
	k, iv := keyOf(0, false)
	demon := agx.Sess{ID: agentIDs[0], Key: k, IV: iv, Meta: agx.DefaultMeta(agentIDs[0])}
	if code, _ := w.Register(demon); code != 200 {
		return core.V("setup|register-refused", "registration of the Demon session refused: %d", code)
	}
	// the Demon session is not always a bare one: sessions that a third-party request can NAME carry
	// what real sessions carry - a pivot child linked below them, transfers in progress
	if strings.Contains(c.DemonState, "smb-child") {
		ck, civ := keyOf(9, false)
		child := agx.Sess{ID: childID, Key: ck, IV: civ, Meta: agx.DefaultMeta(childID)}
		body := (&demonref.Enc{}).Int32(10).Int32(1).Bytes(child.Meta.InitPackage(child.ID, ck, civ)).B
		w.Checkin(demon, []demonref.Sub{{Cmd: 2520, ReqID: 0, Body: body}})
		if w.Agent(childID) == nil {
			return core.V("setup|smb-child-refused", "the SMB child of the Demon session was not registered")
		}
	}
	if strings.Contains(c.DemonState, "downloads") {
		a := w.Agent(demon.ID)
		a.AddRequest(agent.Job{RequestID: 0x0d0d, Command: agent.COMMAND_FS})
		var subs []demonref.Sub
		for fid := uint32(7); fid <= 8; fid++ {
			body := (&demonref.Enc{}).Int32(2).Int32(0).Int32(fid).Int64(100).WString(fmt.Sprintf("C:\\loot\\report%d.txt", fid)).B
			subs = append(subs, demonref.Sub{Cmd: agent.COMMAND_FS, ReqID: 0x0d0d, Body: body})
		}
		w.Checkin(demon, subs)
	}

	// HEAD's rule for "a third-party type is registered for this magic"
	registered := func(magic uint32) bool {
		if !connected {
			return false // ClientClose removed every type of the departed service
		}
		for _, ty := range c.Types {
			if ty.Magic == fmt.Sprintf("0x%x", magic) {
				return true
			}
		}
		return false
	}

	for ri, r := range c.Reqs {
		a := w.Agent(demon.ID)
		if a != nil && !a.IsKnownRequestID(w.TS, outstanding, agent.COMMAND_SLEEP) {
			a.AddRequest(agent.Job{RequestID: outstanding, Command: agent.COMMAND_SLEEP})
		}
		var body []byte
		expect := "any" // 200 | 404-untouched | any (known-session Demon traffic: no verdict beyond status)
		lbl := r.Kind
		var magic uint32
		switch r.Kind {
		case "demon-checkin":
			body = demonref.Batch(demon.ID, 0, nil, demon.Key, demon.IV)
			expect = "200"
		case "demon-output":
			body = demonref.Batch(demon.ID, 0, []demonref.Sub{{Cmd: 90, ReqID: outstanding, Body: (&demonref.Enc{}).String("third-party neighbours").B}}, demon.Key, demon.IV)
			expect = "200"
		default:
			body = c.build(r)
			magic = c.magicOf(r)
			ty := c.Types[((r.Type%len(c.Types))+len(c.Types))%len(c.Types)]
			lbl = "tp|" + ty.Spelling + "|" + r.Mut
			switch {
			case len(body) < 16:
				expect = "404-untouched" // ParseHeader needs 13 bytes, parseAgentRequest 4 bytes of data
				lbl += "|short"
			case magic == demonref.Magic:
				// Demon traffic comes first (parseAgentRequest); a type registered under the Demon magic is unreachable
				// (traffic for an id that names a session that exists NOW - the Demon's or the third-party
				// session, which the session table does not tell apart - is known-session traffic: no verdict
				// beyond the status, as in C01(a))
				if len(body) >= 12 && w.Agent(binary.BigEndian.Uint32(body[8:12])) != nil {
					expect = "any"
				} else {
					expect = "404-untouched" // unknown id and not a registration
				}
			case registered(magic):
				expect = "200"
				lbl += "|registered"
			default:
				expect = "404-untouched"
			}
		}
		desc := fmt.Sprintf("request %d (%s via %s, %d bytes, magic %#x, types %v)", ri, lbl, r.Via, len(body), magic, c.Types)
		if r.Kind == "tp" && expect == "200" && strings.HasPrefix(r.Answer, "close-") {
			// the service closes its websocket instead of answering the relayed request(s)
			if v := pendingClose(c, w, sc, r, body, desc); v != nil {
				return v
			}
			connected = false
			if !waitServiceGone() {
				return core.V("service|leave|connection-goroutine-stays", "%s: 30 s after the service disconnected the teamserver's goroutine for its connection still runs", desc)
			}
			// ... and comes back: the teamserver keeps serving a re-connecting service
			var cerr error
			if v := core.WithWatchdog(90*time.Second, "service-reconnects", func() *core.Violation {
				sc, cerr = connectService(false)
				return nil
			}); v != nil {
				return v
			}
			if cerr != nil {
				return core.V("service|reconnect-not-served", "%s: after the service had disconnected with a request pending, a re-connecting service was not served: %v", desc, cerr)
			}
			connected = true
			continue
		}
		sc.mu.Lock()
		sc.answer = r.Answer
		nRelayed := len(sc.relayed)
		sc.mu.Unlock()
		var before string
		if expect == "404-untouched" {
			before = snapshot(w)
		}
		var code int
		var reply []byte
		v := core.WithWatchdog(30*time.Second, "request|"+lbl, func() *core.Violation {
			if r.Via == "ext" {
				code, reply = w.PostExt(body)
			} else {
				code, reply = w.Post(body)
			}
			return nil
		})
		if v != nil {
			if strings.HasPrefix(v.Sig, "panic|") {
				v.Sig += "|registered-third-party-type"
			}
			v.Msg = desc + ": " + v.Msg
			return v
		}
		if code != 200 && code != 404 {
			return core.V("status|"+lbl, "%s: HTTP status %d, expected the protocol reply (200) or the decoy 404", desc, code)
		}
		for _, ag := range w.TS.Agents.Agents {
			if ag == nil {
				return core.V("state|nil-session|"+lbl, "%s left a nil entry in the session table", desc)
			}
			for _, m := range []struct {
				n string
				f func() bool
				u func()
			}{{"PortFwdsMtx", ag.PortFwdsMtx.TryLock, ag.PortFwdsMtx.Unlock}, {"SocksCliMtx", ag.SocksCliMtx.TryLock, ag.SocksCliMtx.Unlock}, {"SocksSvrMtx", ag.SocksSvrMtx.TryLock, ag.SocksSvrMtx.Unlock}} {
				if !m.f() {
					return core.V("lock-held|"+m.n+"|"+lbl, "%s: %s of %s is still held after the handler returned", desc, m.n, ag.NameID)
				}
				m.u()
			}
		}
		switch expect {
		case "200":
			if code != 200 {
				return core.V("valid-traffic-refused|"+lbl, "%s is valid Demon / registered third-party traffic but got the decoy (%d)", desc, code)
			}
			if r.Kind == "tp" {
				sc.mu.Lock()
				got := len(sc.relayed) - nRelayed
				sc.mu.Unlock()
				want := append([]byte(svcTag), body[12:]...)
				if got != 1 || string(reply) != string(want) {
					return core.V("third-party|reply-mismatch|"+r.Mut, "%s: the service was asked %d times and answered %q, the agent received %q", desc, got, want, reply)
				}
			}
		case "404-untouched":
			if code != 404 {
				return core.V("invalid-traffic|answered|"+lbl, "%s is neither valid Demon nor registered third-party traffic but got status %d", desc, code)
			}
			if after := snapshot(w); after != before {
				return core.V("invalid-traffic|state-changed|"+lbl, "%s is neither valid Demon nor registered third-party traffic but changed state:\n--- before\n%.1500s\n--- after\n%.1500s", desc, before, after)
			}
			sc.mu.Lock()
			got := len(sc.relayed) - nRelayed
			sc.mu.Unlock()
			if got != 0 {
				return core.V("invalid-traffic|relayed-to-service|"+lbl, "%s is not registered third-party traffic but was relayed to the service", desc)
			}
		}
		// the service repeats its answer after the request is over: the id is gone, nothing may happen
		sc.mu.Lock()
		again := sc.again
		sc.again = nil
		sc.mu.Unlock()
		if connected && len(again) > 0 {
			for _, m := range again {
				sc.send(m)
			}
			if v := core.WithWatchdog(60*time.Second, "service-answers-twice", func() *core.Violation {
				if err := sc.barrier(); err != nil {
					return core.V("service|second-answer|connection-lost", "%s: after the service repeated its answer the teamserver stopped serving its connection: %v", desc, err)
				}
				return nil
			}); v != nil {
				return v
			}
		}
		if r.Leave != "" && connected {
			sc.leave(r.Leave == "abrupt")
			connected = false
			if !waitServiceGone() {
				return core.V("service|leave|connection-goroutine-stays", "%s: 30 s after the service disconnected (%s) the teamserver's goroutine for its connection still runs", desc, r.Leave)
			}
		}
	}

	// no lock left held: the Demon can still be tasked and checked in
	return core.WithWatchdog(20*time.Second, "demon-check-in-afterwards", func() *core.Violation {
		a := w.Agent(demon.ID)
		if a == nil {
			return core.V("state|demon-session-gone", "the Demon session disappeared")
		}
		a.AddJobToQueue(agent.Job{Command: agent.COMMAND_SLEEP, RequestID: 0x7777, Data: []interface{}{int32(1), int32(1)}})
		code, tasks, _, _ := w.Checkin(demon, nil)
		if code != 200 || len(tasks) == 0 {
			return core.V("later-check-in", "a Demon check-in after the requests answered %d with %d tasks", code, len(tasks))
		}
		return nil
	})
}

// pendingClose: one (or, with r.Pair, two) registered third-party request(s) are relayed to the
// service, which then closes its websocket (cleanly or abruptly) instead of answering.  Handling of
// every pending request must still end: HEAD (1b2902c: ClientClose closes ClientService.Done, on which
// SendResponse selects) lets it return with an empty body, i.e. status 200 and no bytes.
func pendingClose(c CaseD, w *agx.World, sc *svcClient, r ReqD, body []byte, desc string) *core.Violation {
	type job struct {
		via  string
		body []byte
	}
	jobs := []job{{r.Via, body}}
	if r.Pair {
		r2 := r
		r2.IDKind = map[string]string{"tp-session": "unknown", "unknown": "demon-session", "demon-session": "tp-session", "demon-child": "demon-session"}[r.IDKind]
		if r2.Len < 16 {
			r2.Len = 16
		}
		via2 := "ext"
		if r.Via == "ext" {
			via2 = "http"
		}
		jobs = append(jobs, job{via2, c.build(r2)})
	}
	type res struct {
		i     int
		code  int
		reply []byte
		v     *core.Violation
	}
	sc.mu.Lock()
	sc.answer = "hold"
	n0 := len(sc.relayed)
	sc.mu.Unlock()
	what := "registered-third-party-request|service-closes-instead-of-answering"
	return core.WithWatchdog(20*time.Second, what, func() *core.Violation {
		results := make(chan res, len(jobs))
		early := []res{}
		for i, j := range jobs {
			go func(i int, j job) {
				rs := res{i: i}
				rs.v = core.Guard(func() *core.Violation {
					if j.via == "ext" {
						rs.code, rs.reply = w.PostExt(j.body)
					} else {
						rs.code, rs.reply = w.Post(j.body)
					}
					return nil
				})
				results <- rs
			}(i, j)
			// the next step only once the service has this request in its hands
			dl := time.Now().Add(15 * time.Second)
			for {
				sc.mu.Lock()
				n := len(sc.relayed)
				sc.mu.Unlock()
				if n >= n0+i+1 {
					break
				}
				select {
				case rs := <-results:
					early = append(early, rs)
				default:
				}
				if len(early) > 0 || time.Now().After(dl) {
					code := -1
					if len(early) > 0 {
						if early[0].v != nil {
							return early[0].v
						}
						code = early[0].code
					}
					return core.V("third-party|registered-request-not-relayed", "%s: pending request %d was not relayed to the service (status %d)", desc, i, code)
				}
				time.Sleep(200 * time.Microsecond)
			}
		}
		sc.leave(r.Answer == "close-abrupt")
		for range jobs {
			rs := <-results
			if rs.v != nil {
				if strings.HasPrefix(rs.v.Sig, "panic|") {
					rs.v.Sig += "|service-closes-instead-of-answering"
				}
				rs.v.Msg = desc + ": " + rs.v.Msg
				return rs.v
			}
			if rs.code != 200 || len(rs.reply) != 0 {
				return core.V("third-party|service-closed-pending|reply", "%s: pending request %d (of %d) returned status %d with %d bytes after the service closed its websocket (%s); an empty 200 is what handling a relayed request without an answer yields", desc, rs.i, len(jobs), rs.code, len(rs.reply), r.Answer)
			}
		}
		return nil
	})
}

func classifyD(c CaseD) core.Class {
	var cl core.Class
	canon := map[uint32]bool{}
	for _, ty := range c.Types {
		cl.Labels = append(cl.Labels, "spelling:"+ty.Spelling)
		if ty.Number == demonref.Magic {
			cl.Labels = append(cl.Labels, "type-with-demon-magic")
		}
		if ty.Magic == fmt.Sprintf("0x%x", ty.Number) {
			canon[ty.Number] = true
		}
	}
	if c.DemonState != "" {
		cl.Labels = append(cl.Labels, "demon-session-carries:"+c.DemonState)
	}
	gone := false
	var regHit, nearMiss, short, leave, closedPending bool
	first := ""
	for _, r := range c.Reqs {
		cl.Labels = append(cl.Labels, "req:"+r.Kind, "via:"+r.Via)
		if r.Kind == "tp" {
			m := c.magicOf(r)
			ty := c.Types[((r.Type%len(c.Types))+len(c.Types))%len(c.Types)]
			cl.Labels = append(cl.Labels, "mut:"+r.Mut, "id:"+r.IDKind)
			switch {
			case r.Len < 16:
				short = true
				cl.Labels = append(cl.Labels, fmt.Sprintf("len:%d", r.Len))
			case m == demonref.Magic:
				cl.Labels = append(cl.Labels, "tp-shaped-with-demon-magic")
			case canon[m] && !gone:
				regHit = true
				cl.Labels = append(cl.Labels, "registered-magic->service", "answer:"+r.Answer)
				if (r.IDKind == "demon-session" || r.IDKind == "demon-child") && strings.Contains(c.DemonState, "smb-child") {
					cl.Labels = append(cl.Labels, "registered-magic-names-demon-session-with-pivot-link")
				}
				if strings.HasPrefix(r.Answer, "close-") {
					closedPending = true
					if r.Pair {
						cl.Labels = append(cl.Labels, "two-requests-pending-at-close")
					}
				}
			case r.Mut == "exact" && !gone:
				nearMiss = true
				cl.Labels = append(cl.Labels, "exact-number-of-noncanonical-spelling:"+ty.Spelling)
				if first == "" {
					first = ty.Spelling
				}
			case gone:
				cl.Labels = append(cl.Labels, "magic-of-departed-service")
			default:
				cl.Labels = append(cl.Labels, "unregistered-magic")
			}
		}
		if r.Leave != "" && !gone {
			gone, leave = true, true
			cl.Labels = append(cl.Labels, "service-leaves:"+r.Leave)
		}
	}
	cl.NonTrivial = regHit || nearMiss
	cl.Fingerprint = fmt.Sprintf("types=%d|reg=%v|near=%s|short=%v|leave=%v|tps=%v|closepending=%v", len(c.Types), regHit, first, short, leave, c.TPSession, closedPending)
	return cl
}

func TestC01d(t *testing.T) {
	core.Run(t, core.Spec[CaseD]{
		Property: "C01", Sub: "d",
		Rule: "real Teamserver with a Service block; a service client on the real service websocket registers 1-2 agent types whose MagicValue string is spelled canonically (0x + lower-case digits, no leading zeros), with upper-case digits, 0X, leading zeros, without prefix, with surrounding whitespace, in decimal or empty (numbers incl. the Demon magic), optionally a third-party session, and answers relayed requests at once / late / a second time after the request is over, disconnects (cleanly / abruptly) between two requests, or closes its websocket (cleanly / abruptly) INSTEAD of answering one relayed request or two that are pending at the same time (other agent id, other entry point) and then re-connects and registers again; one Demon session is registered too. 1-6 requests via the HTTP listener engine or the External-C2 handler: third-party shaped packages carrying a registered type's number, the number +-1, byte-swapped or the Demon magic, for the third-party session id, an unknown id or the Demon's id, of every length 0-24 or 16-64 bytes, with right or wrong size field; Demon check-ins and output callbacks. Oracle: status 200 or 404, no panic, return within 30 s, no agent mutex held, registered third-party traffic (HEAD's rule: a connected service registered exactly the string fmt.Sprintf(\"0x%x\", magic); >= 16 bytes; not the Demon magic) is relayed once and answered 200 with the service's bytes, a relayed request the service closes on instead of answering returns within 20 s with an empty 200 (what HEAD 1b2902c yields for a relayed request without an answer) and the re-connecting service is served again; everything else that is not traffic of the Demon session gets 404, is not relayed and leaves sessions/queues/database/loot untouched; afterwards the Demon can be tasked and checked in. Non-trivial: a request reaches the service, or carries the exact number of a non-canonically spelled type; distinct = (#types, reached service, first near-miss spelling, short request, service left, third-party session)",
		Gen:  genD, Check: checkD, Classify: classifyD,
		Assumptions: []string{
			"a service that stays connected but never answers a relayed request keeps that request waiting (there is no time limit in the protocol); the service script therefore either answers or closes its websocket",
			"'answers twice WHILE the request is still pending' is kept out of the generated behaviours: the second copy is sent after the agent request has returned. Sent earlier it races the handler's close/delete of the response channel (send on closed channel, unsynchronised access to ClientService.Responses): an open-ended race family that needs a trusted, authenticated service to misbehave, not listener traffic",
			"which magic counts as registered is modelled after HEAD's exact string comparison, as instructed",
		},
	})
}

package c01

// C01(a), scale dimension: a small share of the cases carries a BULK - a threshold-adjacent
// number (63 ... 8193) of callbacks / operator tasks / sessions of ONE family for one agent -
// sent through the same endpoints as every other request, with the ordinary requests of the
// case before, in the middle of and after it.  What the bulk fills is one of the per-agent
// tables the teamserver keeps (pkg/agent/types.go Agent: PortFwds, SocksCli, Downloads, Tasks,
// JobQueue, BofCallbacks, Pivots.Links) or the session table, by the callback (or the operator
// call) that adds an entry to it, with N distinct ids; "callbacks" repeats one generated layout of
// the focus family N times, one of its integer fields taking N distinct values, every copy answering
// an outstanding request id of its own.  The bulk is cut into requests of PerReq callbacks
// (1, threshold-adjacent, or all N in one request).
// The oracle is the one of the ordinary requests (returns within the watchdog, 200/404, no panic),
// evaluated on every bulk request; the quadratic part (every mutex of every session) is evaluated
// at the checkpoints: after the first half, after the count has been reached, after ONE MORE
// callback of the same kind (sent through the ordinary path, whole oracle), and after a plain
// check-in, which must get the protocol reply.

import (
	"encoding/base64"
	"encoding/binary"
	"fmt"
	"io"
	"net"
	"strings"
	"sync"
	"time"

	"Havoc/pkg/agent"

	"pgregory.net/rapid"

	"verifharness/internal/agx"
	"verifharness/internal/core"
	"verifharness/internal/demonref"
)

type Scale struct {
	What   string `json:"what"`            // portfwd socks download links bof jobs sessions callbacks
	N      int    `json:"n"`               // the count (threshold-adjacent)
	PerReq int    `json:"per_req"`         // callbacks of the bulk carried by one request
	Base   uint32 `json:"base"`            // first of the N distinct object ids (consecutive, may cross 2^31 / wrap at 2^32)
	At     int    `json:"at"`              // ordinary requests [0,At) come before the bulk,
	At2    int    `json:"at2"`             // [At,At2) between its two halves, [At2,...) after it
	Via    string `json:"via"`             // http ext
	Relay  bool   `json:"relay,omitempty"` // the bulk belongs to the SMB child and arrives relayed through agent 0
	// Variant selects the flavour of the recipe (download: FS callback / BEACON file callback; socks:
	// connect / connect+read / connect refused / connect+close; bof: output+ran-ok / could-not-run)
	Variant int `json:"variant,omitempty"`
	// What == "callbacks": the repeated callback
	Layout  string `json:"layout,omitempty"`
	Cmd     uint32 `json:"cmd,omitempty"`
	Body    []byte `json:"body,omitempty"`
	IDPos   int    `json:"id_pos,omitempty"`   // offset in Body of the integer that takes the distinct ids (-1: none)
	ReqEach bool   `json:"req_each,omitempty"` // every copy answers an outstanding request id of its own (else: the shared one)
}

// threshold-adjacent counts.  One case can afford 8193 of the cheap objects (a callback that only
// appends to a table); objects that cost a file, a database row or a goroutine are cut lower.
var scalePool = []int{63, 64, 65, 127, 128, 129, 255, 256, 257, 511, 512, 513, 999, 1000, 1001, 1023, 1024, 1025, 2047, 2048, 2049, 4095, 4096, 4097, 8191, 8192, 8193}

// scaleCap: the largest count one case affords per kind of object.  Quick tier: 8193 for callbacks that only
// append to a table, 4097 where every object costs a file or a goroutine, 2049 where the teamserver's own
// bookkeeping is quadratic (task list + job queue + BOF list), 1025 for sessions and pivot links (a database
// row and several full-table scans each: ~1 ms per object).  The thorough tier goes one step further up.
func scaleCap(what string) int {
	thorough := core.Tier() == "thorough"
	switch what {
	case "portfwd":
		return 8193
	case "callbacks":
		if thorough {
			return 8193
		}
		return 4097 // with an outstanding request id per callback the task list is scanned for every one
	case "download", "socks":
		if thorough {
			return 8193
		}
		return 4097
	case "bof", "jobs":
		if thorough {
			return 4097
		}
		return 2049
	}
	if thorough { // sessions, links
		return 2049
	}
	return 1025
}

// ubits / upick: rapid's integer and SampledFrom draws favour small values and the ends of a range; the shares of
// the scale dimension are cost budgets, so they are drawn bit by bit (rapid.Bool is uniform).
func ubits(t *rapid.T, label string, k int) int {
	v := 0
	for i := 0; i < k; i++ {
		v <<= 1
		if rapid.Bool().Draw(t, label) {
			v |= 1
		}
	}
	return v
}

func upick[T any](t *rapid.T, label string, xs []T) T {
	k := 0
	for 1<<k < len(xs) {
		k++
	}
	return xs[ubits(t, label, k+3)%len(xs)]
}

// scaled: does this case carry a bulk?  Quick tier 3 cases in 128, thorough tier 5 in 1024 (its bulks are larger).
func scaled(t *rapid.T) bool {
	if core.Tier() == "thorough" {
		return ubits(t, "scale?", 10) < 5
	}
	return ubits(t, "scale?", 7) < 3
}

// the cheap kinds are drawn more often than the ones that cost a database row per object (32 entries)
var scaleWhats = []string{
	"portfwd", "portfwd", "portfwd", "portfwd", "portfwd", "portfwd", "portfwd",
	"callbacks", "callbacks", "callbacks", "callbacks", "callbacks", "callbacks", "callbacks",
	"socks", "socks", "socks", "socks", "download", "download", "download", "download",
	"bof", "bof", "bof", "bof", "jobs", "jobs", "jobs", "jobs", "sessions", "links"}

const scaleReqBase = 0x01000000 // request ids of bulk items: scaleReqBase+i

func scaleBucket(n int) string {
	switch {
	case n <= 129:
		return "64-129"
	case n <= 513:
		return "255-513"
	case n <= 1025:
		return "999-1025"
	case n <= 4097:
		return "2047-4097"
	}
	return "8191+"
}

// genScale draws the bulk and adjusts the state of the case to what it needs (one agent; the family the
// ordinary requests focus on is the one the bulk belongs to).
func genScale(t *rapid.T, c *Case) *Scale {
	s := &Scale{What: scaleWhats[ubits(t, "scale-what", 5)], IDPos: -1}
	var pool []int
	for _, n := range scalePool {
		if n <= scaleCap(s.What) {
			pool = append(pool, n)
		}
	}
	// 1024 / 1000 are the commonest limits: three bulks in eight stop right there, the others anywhere in the pool
	if ubits(t, "scale-n-kind", 3) < 3 {
		s.N = upick(t, "scale-n-1024", []int{999, 1000, 1001, 1023, 1024, 1024, 1025, 1025})
	} else {
		s.N = upick(t, "scale-n", pool)
	}
	switch k := ubits(t, "scale-perreq-kind", 4); {
	case k < 6:
		s.PerReq = s.N // one request carries the whole bulk
	case k == 6:
		s.PerReq = 1 // one callback per request: N requests (a request costs a database update: at most 1025 of them)
		if s.N > 1025 {
			s.PerReq = (s.N + 1024) / 1025
		}
	default:
		var per []int
		for _, n := range scalePool {
			if n <= s.N {
				per = append(per, n)
			}
		}
		s.PerReq = upick(t, "scale-perreq", per)
	}
	s.Base = rapid.SampledFrom([]uint32{0, 1, 70, 0x1000, 0x7fffff00, 0xffffff00}).Draw(t, "scale-base")
	s.Via = rapid.SampledFrom([]string{"http", "http", "ext"}).Draw(t, "scale-via")
	s.Variant = rapid.IntRange(0, 3).Draw(t, "scale-variant")
	if c.NAgents == 0 {
		c.NAgents = 1
	}
	if c.Pivot && s.What != "sessions" && s.What != "links" {
		s.Relay = rapid.IntRange(0, 3).Draw(t, "scale-relay") == 0
	}
	switch s.What {
	case "portfwd", "socks":
		c.Focus = "sock"
	case "download":
		c.Focus = "download"
		c.Download = rapid.Bool().Draw(t, "scale-dl-state")
	case "links":
		c.Focus = "pivot"
	case "bof":
		c.Focus = "inline"
	case "jobs", "sessions":
		if c.Focus == "" {
			c.Focus = rapid.SampledFrom(famNames).Draw(t, "scale-focus")
		}
	case "callbacks":
		if c.Focus == "" {
			c.Focus = rapid.SampledFrom(famNames).Draw(t, "scale-focus")
		}
		if c.Focus == "download" {
			c.Download = true
		}
		ix := families[c.Focus]
		lay := layouts[ix[rapid.IntRange(0, len(ix)-1).Draw(t, "scale-layout")]]
		g := &bodyGen{t: t, e: &demonref.Enc{}}
		g.run(lay.tmpl)
		s.Layout, s.Cmd, s.Body = lay.name, lay.cmd, g.e.B
		if len(g.intPos) > 0 {
			// the first free integer after the sub-command is the object id in nearly every Demon callback
			switch k := rapid.IntRange(0, 2*len(g.intPos)).Draw(t, "scale-idpos"); {
			case k == 2*len(g.intPos):
				s.IDPos = -1
			case k >= len(g.intPos):
				s.IDPos = g.intPos[0]
			default:
				s.IDPos = g.intPos[k]
			}
		}
		s.ReqEach = rapid.IntRange(0, 3).Draw(t, "scale-reqeach") > 0
	}
	return s
}

// placeScale draws where the ordinary requests go relative to the bulk (called once they are known).
func placeScale(t *rapid.T, c *Case) {
	s := c.Scale
	s.At = rapid.IntRange(0, len(c.Reqs)).Draw(t, "scale-at")
	s.At2 = rapid.IntRange(s.At, len(c.Reqs)).Draw(t, "scale-at2")
}

// scaleStat: the driver keeps the 60 most frequent labels of a sub-check in the evidence histogram, and C01(a) has
// some 250 of them; the scale labels are therefore also published as an extra counter (the counts of one shard).
var (
	scaleStatMu sync.Mutex
	scaleStat   = map[string]int{}
)

func scaleLabels(c Case) []string {
	ls := scaleLabels1(c)
	if len(ls) > 0 {
		scaleStatMu.Lock()
		cp := make(map[string]int, len(scaleStat)+len(ls))
		for _, l := range ls {
			if !strings.HasPrefix(l, "scale:callbacks:layout:") {
				scaleStat[l]++
			}
		}
		for k, v := range scaleStat {
			cp[k] = v
		}
		scaleStatMu.Unlock()
		core.SetExtra("a_scale_label_counts_last_shard", cp)
	}
	return ls
}

func scaleLabels1(c Case) []string {
	s := c.Scale
	if s == nil {
		return nil
	}
	ls := []string{"scale:" + s.What + ":" + scaleBucket(s.N), "scale:case"}
	switch {
	case s.PerReq >= s.N:
		ls = append(ls, "scale:subs-per-request:"+scaleBucket(s.N))
	case s.PerReq >= 63:
		ls = append(ls, "scale:subs-per-request:"+scaleBucket(s.PerReq))
	}
	if nreq := (s.N + s.PerReq - 1) / s.PerReq; nreq >= 63 || s.What == "sessions" {
		if s.What == "sessions" {
			nreq = s.N
		}
		ls = append(ls, "scale:requests:"+scaleBucket(nreq))
	}
	if s.Relay {
		ls = append(ls, "scale:relayed-through-pivot")
	}
	if s.What == "callbacks" {
		ls = append(ls, "scale:callbacks:layout:"+s.Layout)
		if s.IDPos >= 0 {
			ls = append(ls, "scale:callbacks:distinct-ids")
		}
		if s.ReqEach {
			ls = append(ls, "scale:outstanding-ids:"+scaleBucket(s.N))
		}
	}
	pos := "ordinary-requests:"
	if s.At > 0 {
		pos += "before"
	}
	if s.At2 > s.At {
		pos += "+middle"
	}
	if s.At2 < len(c.Reqs) {
		pos += "+after"
	}
	return append(ls, "scale:"+pos)
}

// ---------------------------------------------------------------- interpreter

type bulkRun struct {
	w      *agx.World
	c      Case
	s      *Scale
	parent agx.Sess // the session whose key the outer package uses
	target agx.Sess // the session the bulk belongs to (parent, or the SMB child when relayed)
	pipes  []net.Conn
	done   [2]bool
	lbl    string
}

func newBulk(w *agx.World, c Case, sessions []agx.Sess) *bulkRun {
	b := &bulkRun{w: w, c: c, s: c.Scale, lbl: "scale:" + c.Scale.What}
	if len(sessions) > 0 {
		b.parent, b.target = sessions[0], sessions[0]
	}
	if b.s.Relay && c.Pivot {
		k, iv := keyOf(9, false)
		b.target = agx.Sess{ID: childID, Key: k, IV: iv, Meta: agx.DefaultMeta(childID)}
	}
	return b
}

func (b *bulkRun) relayed() bool { return b.target.ID != b.parent.ID }

func (b *bulkRun) close() {
	for _, p := range b.pipes {
		p.Close()
	}
	for _, a := range b.w.TS.Agents.Agents {
		if a == nil {
			continue
		}
		for _, d := range a.Downloads {
			if d != nil && d.File != nil {
				d.File.Close()
			}
		}
	}
}

func (b *bulkRun) id(i int) uint32  { return b.s.Base + uint32(i) }
func (b *bulkRun) rid(i int) uint32 { return scaleReqBase + uint32(i) }

// before is called ahead of ordinary request ri (and once after the last one).
func (b *bulkRun) before(ri int) *core.Violation {
	s := b.s
	if ri == s.At && !b.done[0] {
		b.done[0] = true
		// the operator-side calls take the session's locks: under the watchdog as well
		if v := core.WithWatchdog(30*time.Second, "operator-calls|"+b.lbl, b.prepare); v != nil {
			return v
		}
		if v := b.send(0, s.N/2); v != nil {
			return v
		}
		if v := b.checkpoint("first-half"); v != nil {
			return v
		}
	}
	if ri == s.At2 && !b.done[1] {
		b.done[1] = true
		if v := b.send(s.N/2, s.N); v != nil {
			return v
		}
		if v := b.checkpoint("count-reached"); v != nil {
			return v
		}
		return b.epilogue()
	}
	return nil
}

// prepare builds the operator-side objects the callbacks of the bulk refer to, by the calls the
// teamserver itself makes for them (Agent.TaskPrepare + AddJobToQueue as DispatchEvent does for a
// console command; SocksClientAdd as the socks accept loop does; AddRequest for a task handed out).
func (b *bulkRun) prepare() *core.Violation {
	s := b.s
	a := b.w.Agent(b.target.ID)
	if a == nil {
		return nil
	}
	total := s.N + 1 // the bulk and the one more that follows it
	switch s.What {
	case "bof", "jobs":
		for i := 0; i < total; i++ {
			info := map[string]interface{}{"TaskID": fmt.Sprintf("%08X", b.rid(i)), "CommandLine": "bulk", "DemonID": a.NameID}
			cmd := agent.COMMAND_SLEEP
			if s.What == "bof" {
				cmd = agent.COMMAND_INLINEEXECUTE
				info["HasCallback"] = "true"
				info["Arguments"] = ""
				info["Binary"] = base64.StdEncoding.EncodeToString([]byte("obj"))
				info["FunctionName"] = "go"
				info["Flags"] = "default"
			} else {
				info["Arguments"] = "5;0"
			}
			msg := map[string]string{}
			job, err := a.TaskPrepare(cmd, info, &msg, "client-1", b.w.TS)
			if err != nil || job == nil {
				panic(fmt.Sprintf("infrastructure: TaskPrepare: %v", err))
			}
			a.AddJobToQueue(*job)
		}
	case "socks":
		for i := 0; i < total; i++ {
			c1, c2 := net.Pipe()
			b.pipes = append(b.pipes, c1, c2)
			go io.Copy(io.Discard, c2) // the socks client reads whatever the proxy sends
			a.SocksClientAdd(int32(b.id(i)), c1, 1, []byte{127, 0, 0, 1}, 80)
		}
	case "callbacks":
		if s.ReqEach {
			for i := 0; i < total; i++ {
				a.AddRequest(agent.Job{RequestID: b.rid(i), Command: s.Cmd})
			}
		}
	}
	return nil
}

// item: the callbacks of bulk element i.
func (b *bulkRun) item(i int) []demonref.Sub {
	s := b.s
	id := b.id(i)
	enc := func() *demonref.Enc { return &demonref.Enc{} }
	switch s.What {
	case "portfwd": // SOCKET_COMMAND_OPEN: a client connected to the agent's reverse port forward
		return []demonref.Sub{{Cmd: agent.COMMAND_SOCKET, ReqID: 0, Body: enc().Int32(agent.SOCKET_COMMAND_OPEN).Int32(id).Int32(0x0100007f).Int32(4444).Int32(0x0100007f).Int32(9).B}}
	case "socks":
		connect := func(ok uint32) demonref.Sub {
			return demonref.Sub{Cmd: agent.COMMAND_SOCKET, ReqID: 0, Body: enc().Int32(agent.SOCKET_COMMAND_CONNECT).Int32(ok).Int32(id).Int32(10061).B}
		}
		switch s.Variant {
		case 1:
			return []demonref.Sub{connect(1), {Cmd: agent.COMMAND_SOCKET, ReqID: 0, Body: enc().Int32(agent.SOCKET_COMMAND_READ).Int32(id).Int32(agent.SOCKET_TYPE_REVERSE_PROXY).Int32(1).Bytes([]byte("HTTP/1.0 200 OK\r\n\r\n")).B}}
		case 2:
			return []demonref.Sub{connect(0)}
		case 3:
			return []demonref.Sub{connect(1), {Cmd: agent.COMMAND_SOCKET, ReqID: 0, Body: enc().Int32(agent.SOCKET_COMMAND_CLOSE).Int32(id).Int32(agent.SOCKET_TYPE_REVERSE_PROXY).B}}
		}
		return []demonref.Sub{connect(1)}
	case "download":
		name := fmt.Sprintf("C:\\bulk\\file%d.bin", i)
		if s.Variant&1 == 1 { // BEACON_OUTPUT / CALLBACK_FILE: [file id][length][name]
			blob := binary.BigEndian.AppendUint32(nil, id)
			blob = binary.BigEndian.AppendUint32(blob, 100)
			blob = append(blob, []byte(name)...)
			return []demonref.Sub{{Cmd: agent.BEACON_OUTPUT, ReqID: outstanding, Body: enc().Int32(2).Bytes(blob).B}}
		}
		return []demonref.Sub{{Cmd: agent.COMMAND_FS, ReqID: outstanding, Body: enc().Int32(2).Int32(0).Int32(id).Int64(100).WString(name).B}}
	case "links": // DEMON_PIVOT_SMB_CONNECT: one more SMB child registers through this agent
		k, iv := keyOf(7, false)
		init := agx.DefaultMeta(id).InitPackage(id, k, iv)
		return []demonref.Sub{{Cmd: agent.COMMAND_PIVOT, ReqID: 0, Body: enc().Int32(agent.DEMON_PIVOT_SMB_CONNECT).Int32(1).Bytes(init).B}}
	case "bof":
		if s.Variant&1 == 1 {
			return []demonref.Sub{{Cmd: agent.COMMAND_INLINEEXECUTE, ReqID: b.rid(i), Body: enc().Int32(4).B}}
		}
		return []demonref.Sub{
			{Cmd: agent.BEACON_OUTPUT, ReqID: b.rid(i), Body: enc().Int32(0).String("bof output").B},
			{Cmd: agent.COMMAND_INLINEEXECUTE, ReqID: b.rid(i), Body: enc().Int32(3).B},
		}
	case "jobs":
		return []demonref.Sub{{Cmd: agent.COMMAND_SLEEP, ReqID: b.rid(i), Body: enc().Int32(5).Int32(0).B}}
	case "callbacks":
		body := append([]byte(nil), s.Body...)
		if s.IDPos >= 0 && s.IDPos+4 <= len(body) {
			binary.BigEndian.PutUint32(body[s.IDPos:], id)
		}
		req := uint32(outstanding)
		if s.ReqEach {
			req = b.rid(i)
		}
		return []demonref.Sub{{Cmd: s.Cmd, ReqID: req, Body: body}}
	}
	return nil
}

// pack builds the request that carries subs for the target session.
func (b *bulkRun) pack(subs []demonref.Sub) []byte {
	if b.relayed() {
		inner := demonref.Batch(b.target.ID, 0, subs, b.target.Key, b.target.IV)
		subs = []demonref.Sub{{Cmd: agent.COMMAND_PIVOT, ReqID: 0, Body: (&demonref.Enc{}).Int32(agent.DEMON_PIVOT_SMB_COMMAND).Bytes(inner).B}}
	}
	return demonref.Batch(b.parent.ID, 0, subs, b.parent.Key, b.parent.IV)
}

func (b *bulkRun) sessionInit(i int) []byte {
	k, iv := keyOf(3, false)
	return agx.DefaultMeta(b.id(i)).InitPackage(b.id(i), k, iv)
}

// rearm: the shared outstanding request ids exist before every request (as doReq does for the ordinary ones)
func (b *bulkRun) rearm() {
	if a := b.w.Agent(b.target.ID); a != nil {
		for k := uint32(0); k < 5; k++ {
			if !a.IsKnownRequestID(b.w.TS, outstanding+k, agent.COMMAND_SLEEP) {
				a.AddRequest(agent.Job{RequestID: outstanding + k, Command: agent.COMMAND_SLEEP})
			}
		}
	}
}

// send transmits bulk elements [lo,hi): every request must return within the watchdog with 200 or 404.
func (b *bulkRun) send(lo, hi int) *core.Violation {
	s := b.s
	post := func(raw []byte, what string) *core.Violation {
		var code int
		v := core.WithWatchdog(30*time.Second, "request|"+b.lbl, func() *core.Violation {
			b.rearm() // under the watchdog too: it takes the session's queue lock
			if s.Via == "ext" {
				code, _ = b.w.PostExtCL(raw, nil)
			} else {
				code, _ = b.w.PostCL(raw, nil)
			}
			return nil
		})
		if v != nil {
			v.Msg = fmt.Sprintf("bulk of %d %s (%d per request, ids from %#x, relayed=%v), %s, %d bytes via %s: %s", s.N, s.What, s.PerReq, s.Base, b.relayed(), what, len(raw), s.Via, v.Msg)
			return v
		}
		if code != 200 && code != 404 {
			return core.V("status|"+b.lbl, "bulk of %d %s, %s: HTTP status %d, expected the protocol reply (200) or the decoy 404", s.N, s.What, what, code)
		}
		return nil
	}
	if s.What == "sessions" {
		for i := lo; i < hi; i++ {
			if v := post(b.sessionInit(i), fmt.Sprintf("registration %d", i)); v != nil {
				return v
			}
		}
		return nil
	}
	per := s.PerReq
	if per < 1 {
		per = 1
	}
	for at := lo; at < hi; at += per {
		end := at + per
		if end > hi {
			end = hi
		}
		var subs []demonref.Sub
		for i := at; i < end; i++ {
			subs = append(subs, b.item(i)...)
		}
		if v := post(b.pack(subs), fmt.Sprintf("elements %d-%d", at, end-1)); v != nil {
			return v
		}
	}
	return nil
}

// checkpoint: no nil session, every mutex of every session can be taken.
func (b *bulkRun) checkpoint(when string) *core.Violation {
	for _, a := range b.w.TS.Agents.Agents {
		if a == nil {
			return core.V("state|nil-session|"+b.lbl, "bulk of %d %s (%s) left a nil entry in the session table", b.s.N, b.s.What, when)
		}
		for _, m := range []struct {
			n string
			f func() bool
			u func()
		}{{"PortFwdsMtx", a.PortFwdsMtx.TryLock, a.PortFwdsMtx.Unlock}, {"SocksCliMtx", a.SocksCliMtx.TryLock, a.SocksCliMtx.Unlock}, {"SocksSvrMtx", a.SocksSvrMtx.TryLock, a.SocksSvrMtx.Unlock}, {"QueueMtx", a.QueueMtx.TryLock, a.QueueMtx.Unlock}} {
			ok := m.f()
			// goroutines of the teamserver (relay readers) take these locks for an instant; a lock LEFT held stays held
			for wait := 0; !ok && wait < 200; wait++ {
				time.Sleep(10 * time.Millisecond)
				ok = m.f()
			}
			if !ok {
				return core.V("lock-held|"+m.n+"|"+b.lbl, "bulk of %d %s (%s): %s of %s is still held after the handlers returned", b.s.N, b.s.What, when, m.n, a.NameID)
			}
			m.u()
		}
	}
	return nil
}

// epilogue: the count has been reached - one more element through the ordinary path (whole oracle),
// then a plain check-in, which a session that exists must get answered.
func (b *bulkRun) epilogue() *core.Violation {
	s := b.s
	one := Req{Class: "B", Via: s.Via, Note: "B|" + b.lbl + ".one-more"}
	who := b.parent
	if s.What == "sessions" {
		one.Class, one.Note = "C", "C|"+b.lbl+".one-more"
		one.Raw = b.sessionInit(s.N)
		k, iv := keyOf(3, false)
		who = agx.Sess{ID: b.id(s.N), Key: k, IV: iv}
	} else {
		one.Raw = b.pack(b.item(s.N))
	}
	if v := doReq(b.w, len(b.c.Reqs), one); v != nil {
		return v
	}
	if v := b.checkpoint("one-more"); v != nil {
		return v
	}
	ck := Req{Class: "B", Via: "http", Note: "B|" + b.lbl + ".check-in", Raw: demonref.Batch(who.ID, 0, nil, who.Key, who.IV)}
	for n := 0; n < 3; n++ { // the first answers may carry the queued tasks
		exists := b.w.Agent(who.ID) != nil
		if v := doReq(b.w, len(b.c.Reqs)+1, ck); v != nil {
			return v
		}
		if !exists {
			break
		}
	}
	if b.w.Agent(who.ID) != nil {
		var code int
		v := core.WithWatchdog(30*time.Second, "request|"+b.lbl+".check-in", func() *core.Violation {
			code, _ = b.w.Post(ck.Raw)
			return nil
		})
		if v != nil {
			return v
		}
		if code != 200 {
			return core.V("check-in-refused|"+b.lbl, "after a bulk of %d %s and one more, the check-in of session %08x got status %d instead of the protocol reply", s.N, s.What, who.ID, code)
		}
	}
	return b.checkpoint("check-in")
}

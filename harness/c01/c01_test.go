package c01

// C01: untrusted listener traffic can never crash or wedge the teamserver.
//
// State (registered agents, outstanding request ids, open downloads, a pivot link, with /
// without a Service block) is built through the real endpoints; then 1-4 requests are
// sent to the HTTP listener engine or the External-C2 handler:
//   class A  arbitrary bytes
//   class B  grammar-valid Demon packages for every command / sub-command layout that
//            TaskDispatch knows, then corrupted (truncation, length prefixes, counts,
//            magic, ids, keys, nesting)
//   class C  registration packets (valid, truncated, id mismatch, existing id, zero key)
// Oracle: no panic, returns before the watchdog, status 200 or 404, every agent mutex can
// be taken afterwards, and traffic that is not valid Demon / registered third-party
// traffic gets 404 and leaves sessions, queues, database and loot untouched.

import (
	"bytes"
	"encoding/binary"
	"fmt"
	"os"
	"sort"
	"strings"
	"testing"
	"time"

	"Havoc/pkg/agent"
	"Havoc/pkg/profile"
	"Havoc/pkg/service"
	"Havoc/pkg/win32"

	"pgregory.net/rapid"

	"verifharness/internal/agx"
	"verifharness/internal/core"
	"verifharness/internal/demonref"
	"verifharness/internal/tsx"
)

func TestMain(m *testing.M) {
	tsx.Quiet()
	os.Exit(m.Run())
}

// ---------------------------------------------------------------- case

type Req struct {
	Class   string `json:"class"`            // A B C
	Via     string `json:"via"`              // http ext pivot
	Raw     []byte `json:"raw,omitempty"`    // class A: the body; class B/C: filled by gen (final bytes are always materialised here)
	Note    string `json:"note,omitempty"`   // generator classes for the evidence
	Invalid bool   `json:"invalid"`          // the harness's classifier: not valid Demon / third-party traffic
	Twice   bool   `json:"twice,omitempty"`
	// CL: the Content-Length the request announces, if it differs from the body's real length
	// (a peer that writes its own HTTP framing can claim anything)
	CL *int64 `json:"cl,omitempty"`
	// HTTP: the generated HTTP layer of the request (cfg_test.go): method, request-target, version, header lines,
	// remote address as the peer controls them; nil = the historical "POST / without header lines" (or, under a
	// configured listener, the shape its filters demand).  HLabels: the generator classes it was drawn from.
	HTTP    *agx.HTTPReq `json:"http,omitempty"`
	HLabels []string     `json:"hlabels,omitempty"`
}

type Case struct {
	NAgents  int    `json:"n_agents"` // 0..3 directly registered agents
	Pivot    bool   `json:"pivot"`    // agent 0 has an SMB child
	Service  bool   `json:"service"`  // Service block present (no third-party agent type registered)
	Download bool   `json:"download"` // agent 0 has an open download
	ZeroKey  bool   `json:"zero_key"` // agent 1 uses the all-zero key
	Reqs     []Req  `json:"reqs"`
	// Focus: a family of layouts (same handler / same state: downloads, sockets, tokens, ...) that most
	// callbacks of this case are drawn from, so that one handler sees a run of related messages
	Focus string `json:"focus,omitempty"`
	// DlSizes: the total size each of the three open downloads announced when it was opened
	// (agent-supplied 64-bit field; 0 = the historical default of 100 bytes)
	DlSizes []uint64 `json:"dl_sizes,omitempty"`
	// Scale: the bulk of the case (scale_test.go): a threshold-adjacent number of callbacks / tasks /
	// sessions of one family, sent before, in the middle of and after the ordinary requests
	Scale *Scale `json:"scale,omitempty"`
	// Cfg: the generated configuration of the HTTP listener (nil = the historical default: nothing configured);
	// Env: the environment of the case (time zone, descriptor limit, agent kill date / working hours) - cfg_test.go
	Cfg     *agx.HTTPOpts `json:"cfg,omitempty"`
	CfgNote []string      `json:"cfg_note,omitempty"`
	Env     *Env          `json:"env,omitempty"`
}

// family of a layout: the state it works on
func family(name string) string {
	switch {
	case strings.HasPrefix(name, "fs.dl"), strings.HasPrefix(name, "beacon.file"), strings.HasPrefix(name, "transfer"):
		return "download"
	}
	if i := strings.IndexByte(name, '.'); i > 0 {
		return name[:i]
	}
	return name
}

var (
	families = map[string][]int{}
	famNames []string
)

func init() {
	for i, l := range layouts {
		f := family(l.name)
		families[f] = append(families[f], i)
	}
	for f, ix := range families {
		if len(ix) >= 3 {
			famNames = append(famNames, f)
		}
	}
	sort.Strings(famNames)
}

func pickLayout(t *rapid.T, c Case, label string) layout {
	if c.Focus != "" && rapid.IntRange(0, 9).Draw(t, label+"-infocus") < 7 {
		ix := families[c.Focus]
		return layouts[ix[rapid.IntRange(0, len(ix)-1).Draw(t, label+"-f")]]
	}
	return layouts[rapid.IntRange(0, len(layouts)-1).Draw(t, label)]
}

var agentIDs = []uint32{0x11111111, 0x80000022, 0x00000033}

const childID = 0x0c0c0c0c
const outstanding = 0x00abcdef // request id that is outstanding for every agent before each request

func keyOf(i int, zero bool) ([]byte, []byte) {
	k := make([]byte, 32)
	iv := make([]byte, 16)
	if zero {
		return k, iv
	}
	for j := range k {
		k[j] = byte(i*41+j*3) | 1
	}
	for j := range iv {
		iv[j] = byte(i*29 + j*5)
	}
	return k, iv
}

// ---------------------------------------------------------------- body grammar

// template language: I int32  Q int64  B bool  S ascii bytes  W utf16 bytes  X random bytes
//   digits after I pin the value (sub-command), *( ... ) repeats 0-3 times, N = a count (small int32)
//   D<n> = an object id with the default value n (a bulk replaces it by distinct ids)
type layout struct {
	cmd  uint32
	name string
	tmpl string
}

var layouts = []layout{
	{92, "exit", "I"}, {93, "killdate", ""}, {89, "info.alloc", "I10 Q I I"}, {89, "info.exec", "I11 Q I"}, {89, "info.protect", "I12 Q I I I"}, {89, "info.unknown", "I"},
	{11, "sleep", "I I"},
	{21, "job.list", "I1 *(I I I)"}, {21, "job.suspend", "I2 I I"}, {21, "job.resume", "I3 I I"}, {21, "job.kill", "I4 I I"}, {21, "job.died", "I5"},
	{15, "fs.dir", "I1 B B W B *(W N N Q *(W B Q I I I I I))"}, {15, "fs.dir.list", "I1 B0 B1 W B1 *(W N N *(W))"}, {15, "fs.dir.listempty", "I1 B0 B1 W B1 E N N E"},
	{15, "fs.dl.open", "I2 I0 I Q W"}, {15, "fs.dl.write", "I2 I1 I X"}, {15, "fs.dl.close", "I2 I2 I I"}, {15, "fs.dl.badmode", "I2 I I"}, {15, "fs.dl.write.open", "I2 I1 T X"}, {15, "fs.dl.close.open", "I2 I2 T I0"}, {15, "fs.dl.remove.open", "I2 I2 T I1"}, {2530, "transfer.list.open", "I0 T I I T I I"},
	{15, "fs.upload", "I3 I W"}, {15, "fs.cd", "I4 W"}, {15, "fs.remove", "I5 I W"}, {15, "fs.mkdir", "I6 W"}, {15, "fs.copy", "I7 I W W"}, {15, "fs.move", "I8 I W W"},
	{15, "fs.pwd", "I9 W"}, {15, "fs.cat", "I10 W I S"}, {15, "fs.unknown", "I"},
	{12, "proclist", "I *(W I I I I I W)"},
	{90, "output", "S"},
	{94, "beacon.output", "I0 S"}, {94, "beacon.oem", "I30 W"}, {94, "beacon.error", "I13 S"}, {94, "beacon.file", "I2 F"}, {94, "beacon.filewrite", "I8 F"}, {94, "beacon.fileclose", "I9 F"}, {94, "beacon.unknown", "I"},
	{22, "injectdll", "I"}, {26, "spawndll", "I"}, {24, "shellcode", "I"},
	{0x1010, "proc.modules", "I2 I *(S Q)"}, {0x1010, "proc.grep", "I3 *(W I I W I)"}, {0x1010, "proc.create", "I4 W I I I I"}, {0x1010, "proc.blockdll", "I5 I"},
	{0x1010, "proc.memory", "I6 I I *(Q I I I I)"}, {0x1010, "proc.kill", "I7 I I"}, {0x1010, "proc.unknown", "I"},
	{20, "inline.out", "I0 S"}, {20, "inline.err", "I13 S"}, {20, "inline.exc", "I1 I Q"}, {20, "inline.sym", "I2 S"}, {20, "inline.ok", "I3"}, {20, "inline.norun", "I4"}, {20, "inline.none", ""},
	{91, "error.win32", "I1 I"}, {91, "error.token", "I3 I"},
	{0x2001, "dotnet.patched", "I1"}, {0x2001, "dotnet.version", "I2 W"}, {0x2001, "dotnet.entry", "I3 I"}, {0x2001, "dotnet.done", "I4"}, {0x2001, "dotnet.fail", "I5"},
	{0x2003, "dotnet.versions", "*(W)"}, {27, "ppid", "I"},
	{40, "token.imp", "I1 I S"}, {40, "token.steal", "I2 W I I"}, {40, "token.list", "I3 *(I I W I I I)"}, {40, "token.privlist", "I4 I1 *(S I)"}, {40, "token.privget", "I4 I0 I S"},
	{40, "token.make", "I5 W"}, {40, "token.uid", "I6 I W"}, {40, "token.revert", "I7 I"}, {40, "token.remove", "I8 I I"}, {40, "token.clear", "I9"}, {40, "token.find", "I10 I1 N *(W I I I I I)"},
	{2500, "config.alloc", "I101 I"}, {2500, "config.exec", "I102 I"}, {2500, "config.spawn64", "I152 W"}, {2500, "config.spawn32", "I153 W"}, {2500, "config.kill", "I154 Q"}, {2500, "config.hours", "I155 I"},
	{2500, "config.spf", "I3 S S"}, {2500, "config.sleeptech", "I5 I"}, {2500, "config.veh", "I7 I"}, {2500, "config.thr", "I6 I"}, {2500, "config.inj", "I150 I"}, {2500, "config.spoof", "I151 S S"}, {2500, "config.verbose", "I4 I"}, {2500, "config.unknown", "I"},
	{2510, "screenshot", "I1 X"}, {2510, "screenshot.fail", "I0"},
	{2100, "net.domain", "I1 S"}, {2100, "net.logons", "I2 W *(W)"}, {2100, "net.sessions", "I3 W *(W W I I)"}, {2100, "net.computer", "I4"}, {2100, "net.dclist", "I5"}, {2100, "net.share", "I6 W *(W W W I)"},
	{2100, "net.localgroup", "I7 W *(W W)"}, {2100, "net.group", "I8 W *(W W)"}, {2100, "net.users", "I9 W *(W I)"},
	{2520, "pivot.list", "I1 *(I W)"}, {2520, "pivot.connect.fail", "I10 I0 I"}, {2520, "pivot.disconnect", "I11 I P"}, {2520, "pivot.unknown", "I"},
	{2530, "transfer.list", "I0 *(I I I)"}, {2530, "transfer.stop", "I1 I I"}, {2530, "transfer.resume", "I2 I I"}, {2530, "transfer.remove", "I3 I I"},
	{2540, "sock.rpadd", "I0 I I I I I I"}, {2540, "sock.rplist", "I2 *(I I I I I)"}, {2540, "sock.rpremove", "I4 I I I I I I"}, {2540, "sock.rpclear", "I3 I"}, {2540, "sock.socksadd", "I5"},
	{2540, "sock.open", "I16 D77 L I4444 L I9"}, {2540, "sock.open.any", "I16 I L I L I9"}, {2540, "sock.read.client", "I17 D77 I3 I1 X"}, {2540, "sock.read.proxy", "I17 I I2 I1 X"}, {2540, "sock.read.fail", "I17 I I I0 I"}, {2540, "sock.write", "I18 I I I I"}, {2540, "sock.close", "I19 I I"}, {2540, "sock.connect", "I20 I I I"},
	{2550, "krb.luid", "I0 I I I"}, {2550, "krb.klist", "I1 I1 N *(W W I I I W I I I W W W W N *(W W W W I I I I I I I I X))"}, {2550, "krb.purge", "I2 I"}, {2550, "krb.ptt", "I3 I"},
	{2560, "memfile", "I I"}, {2570, "dropped", "I I"}, {1, "getjob", ""}, {10, "nojob", ""}, {0x7777, "unknown", "I S"},
}

type bodyGen struct {
	t      *rapid.T
	e      *demonref.Enc
	lenPos []int // offsets of length prefixes
	intPos []int // offsets of the free integer fields (I, T, D<n>): candidates for the id a bulk varies
	n      int
}

func (g *bodyGen) label(s string) string { g.n++; return fmt.Sprintf("%s%d", s, g.n) }

// tableKeys: the keys of the lookup tables that TaskDispatch indexes with agent-supplied
// integers (read from the tree under test at start-up, so entries added by a change are
// drawn too), sorted because map order is random.
var tableKeys = func() []uint32 {
	var ks []uint32
	for k := range win32.Protections {
		ks = append(ks, uint32(k))
	}
	for k := range agent.InjectErrors {
		ks = append(ks, uint32(k))
	}
	sort.Slice(ks, func(i, j int) bool { return ks[i] < ks[j] })
	if len(ks) == 0 {
		ks = []uint32{0}
	}
	return ks
}()

// errorKeys: the (large) Win32 error table, kept apart so that it does not dilute the small tables
var errorKeys = func() []uint32 {
	var ks []uint32
	for k := range agent.Win32ErrorCodes {
		ks = append(ks, uint32(k))
	}
	sort.Slice(ks, func(i, j int) bool { return ks[i] < ks[j] })
	if len(ks) == 0 {
		ks = []uint32{0}
	}
	return ks
}()

func (g *bodyGen) i32() uint32 {
	return rapid.OneOf(rapid.SampledFrom([]uint32{0, 1, 2, 3, 7, 8, 9, 0x7fffffff, 0x80000000, 0xffffffff, outstanding, agentIDs[0], childID}), rapid.Uint32Range(0, 40), rapid.Uint32(), rapid.SampledFrom(tableKeys), rapid.SampledFrom(errorKeys)).Draw(g.t, g.label("i"))
}

func (g *bodyGen) text() string {
	return rapid.OneOf(
		rapid.Just(""), rapid.StringMatching(`[A-Za-z0-9 ._\\:-]{1,20}`), rapid.Just("..\\..\\x"), rapid.Just("../../etc/passwd"), rapid.Just("\x00"),
		rapid.StringOfN(rapid.Rune(), 1, 8, -1), rapid.Just(strings.Repeat("A", 300)),
	).Draw(g.t, g.label("s"))
}

func (g *bodyGen) bytesField(b []byte) {
	g.lenPos = append(g.lenPos, len(g.e.B))
	g.e.Bytes(b)
}

func (g *bodyGen) run(tmpl string) {
	toks := strings.Fields(strings.NewReplacer("*(", " *( ", ")", " ) ").Replace(tmpl))
	g.seq(toks)
}

func (g *bodyGen) seq(toks []string) {
	for i := 0; i < len(toks); i++ {
		tk := toks[i]
		switch {
		case tk == "*(":
			depth, j := 1, i+1
			for ; j < len(toks) && depth > 0; j++ {
				if toks[j] == "*(" {
					depth++
				} else if toks[j] == ")" {
					depth--
				}
			}
			inner := toks[i+1 : j-1]
			reps := rapid.IntRange(0, 3).Draw(g.t, g.label("rep"))
			for r := 0; r < reps; r++ {
				g.seq(inner)
			}
			i = j - 1
		case tk == ")":
		case tk == "I":
			g.intPos = append(g.intPos, len(g.e.B))
			g.e.Int32(g.i32())
		case tk == "N":
			g.e.Int32(rapid.OneOf(rapid.Uint32Range(0, 4), rapid.SampledFrom([]uint32{0x7fffffff, 0xffffffff})).Draw(g.t, g.label("n")))
		case tk == "P":
			g.e.Int32(rapid.SampledFrom([]uint32{childID, agentIDs[0], agentIDs[1], 0, 0xdeadbeef}).Draw(g.t, g.label("p")))
		case tk == "T": // the id of a transfer that the Download state has open
			g.intPos = append(g.intPos, len(g.e.B))
			g.e.Int32(rapid.SampledFrom([]uint32{7, 8, 9}).Draw(g.t, g.label("t")))
		case tk == "L": // loopback address as the Demon reports it (in_addr word written big-endian): 127.0.0.1
			g.e.Int32(0x0100007f)
		case tk == "Q":
			g.e.Int64(rapid.OneOf(rapid.SampledFrom([]uint64{0, 1, 0xffffffffffffffff}), rapid.Uint64()).Draw(g.t, g.label("q")))
		case tk == "B":
			g.e.Int32(rapid.Uint32Range(0, 1).Draw(g.t, g.label("b")))
		case tk == "B0":
			g.e.Int32(0)
		case tk == "B1":
			g.e.Int32(1)
		case tk == "E": // an empty byte string
			g.bytesField(nil)
		case tk == "S":
			g.bytesField([]byte(g.text()))
		case tk == "W":
			w := demonref.UTF16LE(g.text())
			if rapid.IntRange(0, 9).Draw(g.t, g.label("odd")) == 0 && len(w) > 0 {
				w = w[:len(w)-1] // odd number of bytes
			}
			g.bytesField(w)
		case tk == "X":
			g.bytesField(rapid.SliceOfN(rapid.Byte(), 0, 64).Draw(g.t, g.label("x")))
		case tk == "F": // BEACON file blob: [file id BE][length BE][name] / [file id][chunk]
			var blob []byte
			blob = binary.BigEndian.AppendUint32(blob, rapid.SampledFrom([]uint32{7, 8, 0xffffffff}).Draw(g.t, g.label("fid")))
			blob = binary.BigEndian.AppendUint32(blob, g.i32())
			blob = append(blob, []byte(g.text())...)
			cut := rapid.IntRange(0, len(blob)).Draw(g.t, g.label("fcut"))
			if rapid.Bool().Draw(g.t, g.label("fc")) {
				blob = blob[:cut]
			}
			g.bytesField(blob)
		case len(tk) > 1 && tk[0] == 'D':
			var v uint32
			fmt.Sscanf(tk[1:], "%d", &v)
			g.intPos = append(g.intPos, len(g.e.B))
			g.e.Int32(v)
		case len(tk) > 1 && tk[0] == 'I':
			var v uint32
			fmt.Sscanf(tk[1:], "%d", &v)
			g.e.Int32(v)
		default:
			panic("bad template token " + tk)
		}
	}
}

// mutateBody applies one or two corruptions to a grammar-valid body.
func mutateBody(t *rapid.T, body []byte, lenPos []int, gentle bool) ([]byte, string) {
	kinds := []string{"none", "none", "truncate", "lenprefix", "append", "flip", "truncate+lenprefix"}
	if gentle {
		// focused cases are about sequences of well-formed messages reaching one handler
		kinds = []string{"none", "none", "none", "none", "none", "none", "truncate", "lenprefix", "append", "flip"}
	}
	kind := rapid.SampledFrom(kinds).Draw(t, "mut")
	b := append([]byte(nil), body...)
	if strings.Contains(kind, "lenprefix") && len(lenPos) > 0 {
		p := lenPos[rapid.IntRange(0, len(lenPos)-1).Draw(t, "lp")]
		if p+4 <= len(b) {
			old := binary.BigEndian.Uint32(b[p:])
			v := rapid.SampledFrom([]uint32{0, 1, old + 1, old - 1, 0x7fffffff, 0xffffffff, 0x80000000, uint32(len(b))}).Draw(t, "lpv")
			binary.BigEndian.PutUint32(b[p:], v)
		}
	}
	if strings.Contains(kind, "truncate") && len(b) > 0 {
		b = b[:rapid.IntRange(0, len(b)-1).Draw(t, "cut")]
	}
	if kind == "append" {
		b = append(b, rapid.SliceOfN(rapid.Byte(), 1, 9).Draw(t, "app")...)
	}
	if kind == "flip" && len(b) > 0 {
		p := rapid.IntRange(0, len(b)-1).Draw(t, "fp")
		b[p] ^= byte(1 << rapid.IntRange(0, 7).Draw(t, "fb"))
	}
	return b, kind
}

// ---------------------------------------------------------------- generator

func genReq(t *rapid.T, c Case, idx int) Req {
	r := genReq0(t, c, idx)
	// two requests in five carry a generated HTTP layer (cfg_test.go); it has Content-Length classes of its own
	if rapid.IntRange(0, 4).Draw(t, "http-layer?") < 2 {
		r.HTTP, r.HLabels = genHTTP(t, c.Cfg, r.Raw)
		r.CL = nil
	}
	return r
}

func genReq0(t *rapid.T, c Case, idx int) Req {
	r := Req{Class: rapid.SampledFrom([]string{"A", "B", "B", "B", "B", "C"}).Draw(t, "class")}
	r.Via = rapid.SampledFrom([]string{"http", "http", "http", "ext"}).Draw(t, "via")
	r.Twice = rapid.IntRange(0, 9).Draw(t, "twice") == 0
	if rapid.IntRange(0, 19).Draw(t, "cl?") == 0 {
		// 2^33 can be reserved lazily on this machine; anything that must really be filled cannot
		v := rapid.SampledFrom([]int64{0, -1, 1, 11, 12, 1 << 20, 1 << 33, 1 << 48, 1 << 62, 0x7fffffffffffffff}).Draw(t, "cl")
		r.CL = &v
	}
	switch r.Class {
	case "A":
		n := rapid.OneOf(rapid.IntRange(0, 24), rapid.IntRange(0, 300)).Draw(t, "alen")
		r.Raw = rapid.SliceOfN(rapid.Byte(), n, n).Draw(t, "araw")
		r.Note = fmt.Sprintf("A|len=%d", n)
		// random bytes are valid traffic only if they happen to carry the magic and a live id
		r.Invalid = !(len(r.Raw) >= 12 && binary.BigEndian.Uint32(r.Raw[4:8]) == demonref.Magic && liveID(c, binary.BigEndian.Uint32(r.Raw[8:12])))
		if c.NAgents == 0 {
			r.Invalid = true
		}
		return r
	case "C":
		return genReg(t, c, r)
	}
	// class B
	nsub := rapid.IntRange(1, 3).Draw(t, "nsub")
	if c.Focus != "" {
		nsub = rapid.IntRange(2, 5).Draw(t, "nsub-focused")
	}
	var subs []demonref.Sub
	var notes []string
	for i := 0; i < nsub; i++ {
		lay := pickLayout(t, c, "layout")
		g := &bodyGen{t: t, e: &demonref.Enc{}}
		g.run(lay.tmpl)
		body, mk := mutateBody(t, g.e.B, g.lenPos, c.Focus != "")
		req := rapid.SampledFrom([]uint32{outstanding, outstanding, outstanding, 0, 0x12345678}).Draw(t, "req")
		if c.Focus != "" && req == outstanding {
			// every callback of a focused batch answers an outstanding task of its own, so that
			// a final callback early in the batch does not shut the gate for the rest
			req = outstanding + uint32(i)
		}
		subs = append(subs, demonref.Sub{Cmd: lay.cmd, ReqID: req, Body: body})
		notes = append(notes, lay.name+"/"+mk)
	}
	// special deep layouts
	switch rapid.SampledFrom([]string{"plain", "plain", "plain", "smbconnect", "smbcommand", "checkin", "nest", "socklife"}).Draw(t, "special") {
	case "socklife":
		// LIFECYCLE of one socket id: a run of well-formed COMMAND_SOCKET callbacks that all name the SAME id, in any
		// order - opened and never used, removed / closed before the first data, removed twice, used after removal, ...
		// (the id 77 is also the one the sock.open / sock.read.client layouts name, so runs continue across requests)
		ls, ln := genSockLife(t)
		subs = append(subs, ls...)
		notes = append(notes, ln...)
	case "smbconnect":
		k, iv := keyOf(7, rapid.Bool().Draw(t, "czk"))
		cid := rapid.SampledFrom([]uint32{0x0d0d0d0d, agentIDs[0], agentIDs[1], childID, 0}).Draw(t, "cid")
		hid := cid
		if rapid.IntRange(0, 3).Draw(t, "mism") == 0 {
			hid = cid + 1
		}
		init := agx.DefaultMeta(cid).InitPackage(hid, k, iv)
		if rapid.Bool().Draw(t, "ccut") {
			init = init[:rapid.IntRange(0, len(init)).Draw(t, "ccutn")]
		}
		body := (&demonref.Enc{}).Int32(10).Int32(1).Bytes(init).B
		subs = append(subs, demonref.Sub{Cmd: 2520, ReqID: 0, Body: body})
		notes = append(notes, "pivot.connect")
	case "smbcommand":
		target := rapid.SampledFrom([]uint32{childID, agentIDs[0], agentIDs[1], 0x99999999}).Draw(t, "ptarget")
		k, iv := keyOf(9, false) // the child's key (see setup)
		if rapid.IntRange(0, 3).Draw(t, "wrongkey") == 0 {
			k, iv = keyOf(0, false)
		}
		lay := pickLayout(t, c, "playout")
		g := &bodyGen{t: t, e: &demonref.Enc{}}
		g.run(lay.tmpl)
		inner := demonref.Batch(target, 0, []demonref.Sub{{Cmd: lay.cmd, ReqID: outstanding, Body: g.e.B}}, k, iv)
		if rapid.IntRange(0, 3).Draw(t, "pcut") == 0 {
			inner = inner[:rapid.IntRange(0, len(inner)).Draw(t, "pcutn")]
		}
		subs = append(subs, demonref.Sub{Cmd: 2520, ReqID: 0, Body: (&demonref.Enc{}).Int32(12).Bytes(inner).B})
		notes = append(notes, "pivot.command:"+lay.name)
	case "checkin":
		k, iv := keyOf(0, false)
		inner := rapid.SampledFrom([]uint32{agentIDs[0], agentIDs[1], 0}).Draw(t, "ckid")
		body := agx.DefaultMeta(inner).InitBody(k, iv, false)
		if rapid.Bool().Draw(t, "ckcut") {
			body = body[:rapid.IntRange(0, len(body)).Draw(t, "ckcutn")]
		}
		subs = append(subs, demonref.Sub{Cmd: 100, ReqID: outstanding, Body: body})
		notes = append(notes, "checkin")
	case "nest":
		depth := rapid.SampledFrom([]int{1, 2, 3, 4, 50, 400}).Draw(t, "nestdepth")
		k, iv := keyOf(0, false)
		pkg := demonref.Batch(agentIDs[0], 0, []demonref.Sub{{Cmd: 90, ReqID: outstanding, Body: (&demonref.Enc{}).String("deep").B}}, k, iv)
		for d := 0; d < depth; d++ {
			pkg = demonref.Batch(agentIDs[0], 0, []demonref.Sub{{Cmd: 2520, ReqID: 0, Body: (&demonref.Enc{}).Int32(12).Bytes(pkg).B}}, k, iv)
		}
		r.Raw = pkg
		r.Note = fmt.Sprintf("B|nest=%d", depth)
		r.Invalid = c.NAgents == 0
		return r
	}
	// header
	ai := 0
	if c.NAgents > 0 {
		ai = rapid.IntRange(0, c.NAgents-1).Draw(t, "agent")
		if c.Focus != "" && rapid.IntRange(0, 3).Draw(t, "agent0") > 0 {
			ai = 0 // the prepared state (open downloads, SMB child) hangs off agent 0
		}
	}
	id := agentIDs[ai]
	key, iv := keyOf(ai, c.ZeroKey && ai == 1)
	magic := uint32(demonref.Magic)
	hdrCmd := uint32(demonref.CmdGetJob)
	invalid := c.NAgents == 0
	hm := rapid.SampledFrom([]string{"ok", "ok", "ok", "ok", "magic", "unknown-id", "id0", "otherkey", "hdrcmd"}).Draw(t, "hdrmut")
	switch hm {
	case "magic":
		magic = rapid.SampledFrom([]uint32{0, 0xdeadbeee, 0x41414141, 0xffffffff}).Draw(t, "magicv")
		invalid = true // no third-party agent type is registered in any generated state
	case "unknown-id":
		id = 0x55555555
		invalid = true
	case "id0":
		id = 0
		invalid = true
	case "otherkey":
		key, iv = keyOf(5, false)
	case "hdrcmd":
		hdrCmd = rapid.SampledFrom([]uint32{99, 100, 0, 2520}).Draw(t, "hdrcmdv")
	}
	pkg := demonref.BatchRaw(magic, id, hdrCmd, 0, subs, key, iv)
	switch rapid.SampledFrom([]string{"none", "none", "none", "cut", "size"}).Draw(t, "pkgmut") {
	case "cut":
		pkg = pkg[:rapid.IntRange(0, len(pkg)).Draw(t, "pkgcut")]
		if len(pkg) < 12 {
			invalid = true
		}
		hm += "+cut"
	case "size":
		binary.BigEndian.PutUint32(pkg[0:4], rapid.SampledFrom([]uint32{0, 0xffffffff, 1}).Draw(t, "sizev"))
		hm += "+size"
	}
	r.Raw = pkg
	r.Note = "B|" + strings.Join(notes, ",") + "|hdr=" + hm
	r.Invalid = invalid
	return r
}

// genSockLife: 2-5 well-formed COMMAND_SOCKET callbacks about one socket id (see "socklife" in genReq0).
func genSockLife(t *rapid.T) ([]demonref.Sub, []string) {
	id := rapid.SampledFrom([]uint32{77, 77, 77, 78, 0, 0x80000000, 0xffffffff}).Draw(t, "life-id")
	n := rapid.IntRange(1, 4).Draw(t, "life-n")
	var ops []string
	if rapid.IntRange(0, 3).Draw(t, "life-open-first") > 0 {
		ops = append(ops, "open")
	}
	for i := 0; i < n; i++ {
		ops = append(ops, rapid.SampledFrom([]string{"open", "read.client", "read.client", "read.proxy", "read.fail", "write.fail", "close.proxy", "close.client", "connect.ok", "connect.fail", "rpremove", "rpremove", "rpremove.othertype"}).Draw(t, "life-op"))
	}
	const lo = 0x0100007f // 127.0.0.1 as the Demon reports it
	var subs []demonref.Sub
	var notes []string
	for i, op := range ops {
		e := &demonref.Enc{}
		switch op {
		case "open":
			e.Int32(16).Int32(id).Int32(lo).Int32(4444).Int32(lo).Int32(9)
		case "read.client":
			e.Int32(17).Int32(id).Int32(3).Int32(1).Bytes(rapid.SliceOfN(rapid.Byte(), 0, 16).Draw(t, "life-data"))
		case "read.proxy":
			e.Int32(17).Int32(id).Int32(2).Int32(1).Bytes([]byte("data"))
		case "read.fail":
			e.Int32(17).Int32(id).Int32(3).Int32(0).Int32(10054)
		case "write.fail":
			e.Int32(18).Int32(id).Int32(3).Int32(0).Int32(10054)
		case "close.proxy":
			e.Int32(19).Int32(id).Int32(2)
		case "close.client":
			e.Int32(19).Int32(id).Int32(3)
		case "connect.ok":
			e.Int32(20).Int32(1).Int32(id).Int32(0)
		case "connect.fail":
			e.Int32(20).Int32(0).Int32(id).Int32(10061)
		case "rpremove":
			e.Int32(4).Int32(id).Int32(1).Int32(lo).Int32(4444).Int32(lo).Int32(9)
		case "rpremove.othertype":
			e.Int32(4).Int32(id).Int32(3).Int32(lo).Int32(4444).Int32(lo).Int32(9)
		}
		subs = append(subs, demonref.Sub{Cmd: 2540, ReqID: outstanding + uint32(i%5), Body: e.B})
		notes = append(notes, "sock.life."+op+"/lifecycle")
	}
	return subs, notes
}

// lifeLabels: the adjacent pairs of every socket lifecycle run of the case, e.g. lifecycle:sock:open>rpremove
func lifeLabels(c Case) []string {
	var out []string
	for _, r := range c.Reqs {
		if r.Class != "B" || !strings.Contains(r.Note, "sock.life.") {
			continue
		}
		out = append(out, "lifecycle:sock")
		prev := ""
		for _, p := range strings.Split(strings.Split(r.Note, "|")[1], ",") {
			if !strings.HasPrefix(p, "sock.life.") {
				continue
			}
			op := strings.TrimSuffix(strings.TrimPrefix(p, "sock.life."), "/lifecycle")
			if prev != "" {
				out = append(out, "lifecycle:sock:"+prev+">"+op)
			}
			prev = op
		}
	}
	return out
}

func liveID(c Case, id uint32) bool {
	for i := 0; i < c.NAgents; i++ {
		if agentIDs[i] == id {
			return true
		}
	}
	return c.Pivot && c.NAgents > 0 && id == childID
}

func genReg(t *rapid.T, c Case, r Req) Req {
	kind := rapid.SampledFrom([]string{"valid-new", "truncated", "mismatch", "existing", "zero-key", "trailing"}).Draw(t, "regkind")
	id := uint32(0x0a0b0c0d)
	key, iv := keyOf(3, kind == "zero-key")
	m := agx.DefaultMeta(id)
	pkg := m.InitPackage(id, key, iv)
	r.Invalid = false
	switch kind {
	case "truncated":
		cut := rapid.IntRange(0, len(pkg)-1).Draw(t, "regcut")
		pkg = pkg[:cut]
		r.Invalid = true
		kind += fmt.Sprintf("@%d", cut*8/len(m.InitPackage(id, key, iv)))
	case "mismatch":
		pkg = m.InitPackage(id+1, key, iv)
		r.Invalid = true
	case "existing":
		if c.NAgents > 0 {
			id = agentIDs[0]
			k0, iv0 := keyOf(0, false)
			pkg = agx.DefaultMeta(id).InitPackage(id, k0, iv0)
		}
	case "trailing":
		pkg = append(pkg, rapid.SliceOfN(rapid.Byte(), 1, 7).Draw(t, "regtrail")...)
	}
	r.Raw = pkg
	r.Note = "C|" + kind
	return r
}

func gen(t *rapid.T) Case {
	c := Case{NAgents: rapid.IntRange(0, 3).Draw(t, "nagents"), Service: rapid.Bool().Draw(t, "service"), ZeroKey: rapid.Bool().Draw(t, "zerokey")}
	if c.NAgents > 0 {
		c.Pivot = rapid.Bool().Draw(t, "pivot")
		c.Download = rapid.Bool().Draw(t, "download")
	}
	if c.Download || c.NAgents > 0 {
		for i := 0; i < 3; i++ {
			c.DlSizes = append(c.DlSizes, rapid.SampledFrom([]uint64{100, 100, 0, 1, 5, 0x7fffffffffffffff, 0x8000000000000000, 0xffffffffffffffff, 0x100000000}).Draw(t, "dlsize"))
		}
	}
	c.Cfg, c.CfgNote = genCfg(t)
	n := rapid.IntRange(1, 4).Draw(t, "nreqs")
	if c.NAgents > 0 && rapid.Bool().Draw(t, "focused") {
		c.Focus = rapid.SampledFrom(famNames).Draw(t, "focus")
		if c.Focus == "download" {
			c.Download = true
		}
		n = rapid.IntRange(2, 6).Draw(t, "nreqs-focused")
	}
	// scale (scale_test.go): 3 cases in 128 carry a bulk of one family; its ordinary requests focus on that family
	if scaled(t) {
		c.Scale = genScale(t, &c)
		if len(c.DlSizes) == 0 {
			c.DlSizes = []uint64{100, 0, 0xffffffffffffffff}
		}
		n = rapid.IntRange(2, 6).Draw(t, "nreqs-scale")
	}
	for i := 0; i < n; i++ {
		c.Reqs = append(c.Reqs, genReq(t, c, i))
	}
	if c.Scale != nil {
		placeScale(t, &c)
	}
	c.Env = genEnv(t, len(c.Reqs))
	return c
}

// ---------------------------------------------------------------- check

func snapshot(w *agx.World) string {
	var sb strings.Builder
	for _, a := range w.TS.Agents.Agents {
		if a == nil {
			sb.WriteString("<nil>\n")
			continue
		}
		var reqs []string
		for _, j := range a.Tasks {
			reqs = append(reqs, fmt.Sprintf("%x", j.RequestID))
		}
		var links []string
		for _, l := range a.Pivots.Links {
			links = append(links, l.NameID)
		}
		parent := ""
		if a.Pivots.Parent != nil {
			parent = a.Pivots.Parent.NameID
		}
		fmt.Fprintf(&sb, "%s active=%v reason=%q queue=%d tasks=%v info=%+v key=%x iv=%x downloads=%d portfwds=%d socks=%d parent=%s links=%v\n",
			a.NameID, a.Active, a.Reason, len(a.JobQueue), reqs, *a.Info, a.Encryption.AESKey, a.Encryption.AESIv, len(a.Downloads), len(a.PortFwds), len(a.SocksCli), parent, links)
	}
	var dbids []string
	for _, a := range w.TS.DB.AgentAll() {
		dbids = append(dbids, a.NameID)
	}
	sort.Strings(dbids)
	fmt.Fprintf(&sb, "db=%v\n", dbids)
	sb.WriteString(tsx.TreeString(w.Dir + "/loot"))
	return sb.String()
}

func check(c Case) *core.Violation {
	if c.Env != nil && c.Env.FDAt >= 0 && !childFD.on {
		// a request handled without free descriptors may end the process: the case runs in a child of its own
		return runInChild(c)
	}
	if c.Env != nil && c.Env.Zone != "" {
		old := time.Local
		time.Local = zoneOf(c.Env.Zone)
		defer func() { time.Local = old }()
	}
	var prof *profile.Profile
	if c.Service {
		prof = tsx.BasicProfile(map[string]string{"op": "pw"}, &profile.ServiceConfig{Endpoint: "svc", Password: "svcpw"})
	}
	w, err := agx.NewWorldOpts(prof, c.Cfg)
	if err != nil {
		panic("infrastructure: " + err.Error())
	}
	defer w.Close()
	if c.Service {
		// what Start() does for a profile with a Service block (teamserver.go:193-199), without the websocket route
		w.TS.Service = service.NewService(w.TS.Server.Engine)
		w.TS.Service.Teamserver = w.TS
		w.TS.Service.Data.ServerAgents = &w.TS.Agents
		w.TS.Service.Config = *prof.Config.Service
	}
	var sessions []agx.Sess
	for i := 0; i < c.NAgents; i++ {
		k, iv := keyOf(i, c.ZeroKey && i == 1)
		s := agx.Sess{ID: agentIDs[i], Key: k, IV: iv, Meta: agx.DefaultMeta(agentIDs[i])}
		if c.Env != nil && c.Env.Meta != "" {
			applyMeta(&s.Meta, c.Env.Meta)
		}
		if code, _ := w.Register(s); code != 200 {
			return core.V("setup|register-refused", "registration refused: %d", code)
		}
		sessions = append(sessions, s)
	}
	if c.Pivot {
		k, iv := keyOf(9, false)
		child := agx.Sess{ID: childID, Key: k, IV: iv, Meta: agx.DefaultMeta(childID)}
		body := (&demonref.Enc{}).Int32(10).Int32(1).Bytes(child.Meta.InitPackage(child.ID, k, iv)).B
		w.Checkin(sessions[0], []demonref.Sub{{Cmd: 2520, ReqID: 0, Body: body}})
	}
	if c.Download {
		a := w.Agent(agentIDs[0])
		a.AddRequest(agent.Job{RequestID: 0x0d0d, Command: agent.COMMAND_FS})
		// several transfers are open at once (file ids 7, 8, 9), as with a real agent downloading a folder
		var subs []demonref.Sub
		for fid := uint32(7); fid <= 9; fid++ {
			size := uint64(100)
			if i := int(fid - 7); i < len(c.DlSizes) {
				size = c.DlSizes[i]
			}
			body := (&demonref.Enc{}).Int32(2).Int32(0).Int32(fid).Int64(size).WString(fmt.Sprintf("C:\\loot\\report%d.txt", fid)).B
			subs = append(subs, demonref.Sub{Cmd: agent.COMMAND_FS, ReqID: 0x0d0d, Body: body})
		}
		w.Checkin(sessions[0], subs)
	}

	var bulk *bulkRun
	if c.Scale != nil {
		bulk = newBulk(w, c, sessions)
		defer bulk.close()
	}
	for ri, r := range c.Reqs {
		if bulk != nil {
			if v := bulk.before(ri); v != nil {
				return v
			}
		}
		if v := doReq(w, ri, r); v != nil {
			return v
		}
	}
	if bulk != nil {
		if v := bulk.before(len(c.Reqs)); v != nil {
			return v
		}
	}
	// stop what requests may have started (reverse port forward dials to loopback)
	for _, a := range w.TS.Agents.Agents {
		if a == nil {
			continue
		}
		for _, p := range a.PortFwds {
			if p != nil && p.Conn != nil {
				p.Conn.Close()
			}
		}
	}
	return nil
}

// doReq sends one request and evaluates the whole oracle of C01(a) on it.
func doReq(w *agx.World, ri int, r Req) *core.Violation {
	// every live agent has an outstanding request id before the request
	for _, a := range w.TS.Agents.Agents {
		for k := uint32(0); a != nil && k < 5; k++ {
			if !a.IsKnownRequestID(w.TS, outstanding+k, agent.COMMAND_SLEEP) {
				a.AddRequest(agent.Job{RequestID: outstanding + k, Command: agent.COMMAND_SLEEP})
			}
		}
	}
	times := 1
	if r.Twice {
		times = 2
	}
	for rep := 0; rep < times; rep++ {
		// the classifier's verdict holds only while the header does not name a session that exists NOW
		// (an earlier request of this case may have registered the id): traffic for a live id is known-session traffic
		invalid := r.Invalid
		if len(r.Raw) >= 12 && binary.BigEndian.Uint32(r.Raw[4:8]) == demonref.Magic && w.Agent(binary.BigEndian.Uint32(r.Raw[8:12])) != nil {
			invalid = false
		}
		// the generated HTTP layer: what net/http's reader delivers of it, and what HEAD's front end does with that
		var prep agx.Prepared
		useHTTP, emptyPath := r.HTTP != nil, false
		if useHTTP {
			prep = r.HTTP.Prepare(r.Raw)
			if prep.Req == nil {
				continue // net/http answers this one by itself: nothing reaches the listener
			}
			emptyPath = prep.Req.URL.Path == "" // (gin rewrites the path before it redirects)
			if r.Via != "ext" && (!routed(prep.Req) || !passesFilters(w.Opts, prep.Req)) {
				// not handed to request() by the router, or refused by the configured header / URI / user-agent filter
				invalid = true
			} else if !bytes.Equal(prep.BodySeen, r.Raw) {
				// the announced framing (Content-Length, Transfer-Encoding) delivers other bytes than the ones classified
				invalid = false
			}
		}
		var before string
		if invalid {
			before = snapshot(w)
		}
		var code int
		lbl := cls(r)
		v := core.WithWatchdog(30*time.Second, "request|"+lbl, func() *core.Violation {
			send := func() {
				switch {
				case useHTTP:
					code = w.Send(prep, r.Via == "ext").Code
				case r.Via == "ext":
					code, _ = w.PostExtCL(r.Raw, r.CL)
				default:
					code, _ = w.PostCL(r.Raw, r.CL)
				}
			}
			if childFD.on && childFD.at == ri && rep == 0 {
				withFDLimit(childFD.spare, send)
			} else {
				send()
			}
			return nil
		})
		if v != nil {
			v.Msg = fmt.Sprintf("request %d (%s, %d bytes, via %s%s): %s", ri, r.Note, len(r.Raw), r.Via, httpNote(r), v.Msg)
			return v
		}
		okStatus := code == 200 || code == 404
		if useHTTP && r.Via != "ext" && emptyPath && (code == 301 || code == 307) {
			okStatus = true // gin's own redirect for an empty path (absolute-form target without a path): HEAD's router answers that
		}
		if !okStatus {
			return core.V("status|"+lbl, "request %d (%s%s): HTTP status %d, expected the protocol reply (200) or the decoy 404", ri, r.Note, httpNote(r), code)
		}
		for _, a := range w.TS.Agents.Agents {
			if a == nil {
				return core.V("state|nil-session|"+lbl, "request %d (%s) left a nil entry in the session table", ri, r.Note)
			}
			for _, m := range []struct {
				n string
				f func() bool
				u func()
			}{{"PortFwdsMtx", a.PortFwdsMtx.TryLock, a.PortFwdsMtx.Unlock}, {"SocksCliMtx", a.SocksCliMtx.TryLock, a.SocksCliMtx.Unlock}, {"SocksSvrMtx", a.SocksSvrMtx.TryLock, a.SocksSvrMtx.Unlock}} {
				if !m.f() {
					return core.V("lock-held|"+m.n+"|"+lbl, "request %d (%s): %s of %s is still held after the handler returned", ri, r.Note, m.n, a.NameID)
				}
				m.u()
			}
		}
		if invalid {
			if code == 200 { // (404, or gin's redirect for an empty path: see above)
				return core.V("invalid-traffic|answered|"+lbl, "request %d (%s%s) is not valid Demon / third-party traffic for this listener but got status %d", ri, r.Note, httpNote(r), code)
			}
			if after := snapshot(w); after != before {
				return core.V("invalid-traffic|state-changed|"+lbl, "request %d (%s) is not valid Demon / third-party traffic but changed state:\n--- before\n%.1500s\n--- after\n%.1500s", ri, r.Note, before, after)
			}
		}
	}
	return nil
}

// cls abstracts a request for signatures and fingerprints: class + first layout name + header mutation
func cls(r Req) string {
	parts := strings.Split(r.Note, "|")
	if len(parts) >= 2 {
		first := strings.Split(parts[1], ",")[0]
		first = strings.Split(first, "/")[0]
		if strings.HasPrefix(first, "len=") {
			first = "bytes"
		}
		if strings.HasPrefix(first, "nest=") {
			first = "nest"
		}
		return parts[0] + ":" + first
	}
	return r.Class
}

func classify(c Case) core.Class {
	var cl core.Class
	for _, r := range c.Reqs {
		cl.Labels = append(cl.Labels, "class:"+r.Class, "via:"+r.Via)
		if r.Class == "B" {
			for _, p := range strings.Split(strings.Split(r.Note, "|")[1], ",") {
				cl.Labels = append(cl.Labels, "layout:"+strings.Split(p, "/")[0])
				if strings.Contains(p, "/") {
					cl.Labels = append(cl.Labels, "mut:"+strings.Split(p, "/")[1])
				}
			}
		}
		if r.Class == "C" {
			cl.Labels = append(cl.Labels, "reg:"+strings.Split(r.Note, "|")[1])
		}
		if r.Invalid {
			cl.Labels = append(cl.Labels, "classified-invalid")
		}
		if r.CL != nil {
			cl.Labels = append(cl.Labels, "announced-content-length-differs")
		}
		// non-trivial: got past header + magic + session lookup by construction
		if (r.Class == "B" || r.Class == "C") && !r.Invalid && c.NAgents > 0 {
			cl.NonTrivial = true
		}
	}
	if c.Focus != "" {
		cl.Labels = append(cl.Labels, "focus:"+c.Focus)
	}
	if c.Scale != nil {
		cl.Labels = append(cl.Labels, scaleLabels(c)...)
		cl.NonTrivial = true // the bulk is valid traffic of a registered session by construction
	}
	cl.Labels = append(cl.Labels, cfgLabels(c)...)
	cl.Labels = append(cl.Labels, lifeLabels(c)...)
	last := c.Reqs[len(c.Reqs)-1]
	cl.Fingerprint = fmt.Sprintf("%s|n=%d|p=%v|s=%v|d=%v|len=%d", cls(last), c.NAgents, c.Pivot, c.Service, c.Download, bucket(len(last.Raw)))
	if c.Scale != nil {
		cl.Fingerprint = fmt.Sprintf("scale:%s:%s|%s|p=%v|relay=%v", c.Scale.What, scaleBucket(c.Scale.N), cls(last), c.Pivot, c.Scale.Relay)
	}
	return cl
}

func bucket(n int) int {
	switch {
	case n < 20:
		return 0
	case n < 64:
		return 1
	case n < 256:
		return 2
	}
	return 3
}

var _ = bytes.Equal

func TestC01(t *testing.T) {
	core.Run(t, core.Spec[Case]{
		Property: "C01", Sub: "a",
		Rule: "state (0-3 registered agents incl. id >= 2^31 and a zero-key agent, SMB child, three open downloads whose announced sizes include 0, 2^63 and 2^64-1, Service block on/off, five outstanding request ids on every agent) built through the real endpoints, then 1-4 requests (2-6 in the half of the cases that focus on one family of layouts - downloads, sockets, tokens, jobs, ... - so that one handler sees a run of related messages) via the HTTP listener engine or the External-C2 handler: one request in twenty announces a Content-Length that is not its body's length (0, -1, 1, 2^20 ... 2^63-1); A random bytes (all lengths 0-24, up to 300); B batches of 1-3 grammar-valid callbacks drawn from 140 command/sub-command layouts of TaskDispatch, each corrupted by integer fields also drawn from the keys of the lookup tables TaskDispatch indexes (win32.Protections, InjectErrors, Win32ErrorCodes as found in the tree under test); truncation / length-prefix rewrite / appended bytes / bit flip, plus SMB_CONNECT with a (cut / mismatching) child registration, relayed SMB_COMMAND packages, CHECKIN metadata, self-nested pivot packages to depth 400, header corruptions (magic, unknown id, id 0, other key, header command, cut, size), and (one class B request in eight; labels lifecycle:sock, lifecycle:sock:<op>><next op>, layout:sock.life.<op>) a socket LIFECYCLE run appended to the batch: 2-5 well-formed COMMAND_SOCKET callbacks that all name the same socket id (77 = the id of the sock.open layouts, 78, 0, 2^31, 2^32-1), three in four starting with SOCKET_COMMAND_OPEN, then in any order OPEN again / READ of type client with data (the first one dials the forward target) / READ of type proxy / failed READ / failed WRITE / CLOSE of type proxy or client / CONNECT ok or refused / RPORTFWD_REMOVE with type reverse-port-forward or another type - so an entry is removed before it ever carried data, removed twice, read after removal, re-opened after removal, with the whole oracle on the request; C registrations (valid, truncated, id mismatch, existing id, zero key, trailing bytes). Oracle: no panic, returns within 30 s, status 200/404, all agent mutexes free, traffic classified invalid by the harness gets 404 and leaves sessions/queues/DB/loot identical. Non-trivial: a class B/C request that passes header, magic and session lookup; distinct = (class:first layout, #agents, pivot, service, download, length bucket) SCALE (scale_test.go; 3 cases in 128, labels scale:<what>:<bucket>): the case carries a BULK of N objects of one kind for one session, N drawn from the threshold-adjacent pool {63,64,65, 127,128,129, 255,256,257, 511,512,513, 999,1000,1001, 1023,1024,1025, 2047,2048,2049, 4095,4096,4097, 8191,8192,8193} (three bulks in eight stop at 999-1025), with N consecutive distinct ids starting at 0, 1, 70, 0x1000, 2^31-256 or 2^32-256 (crossing the sign bit / wrapping), pushed into one of the tables the teamserver keeps per session by the callback (or the operator-side call) that adds to it: portfwd = SOCKET_COMMAND_OPEN (Agent.PortFwds, always accepted; up to 8193), socks = SocksClientAdd as the socks accept loop calls it, then CONNECT ok / CONNECT+READ / CONNECT refused / CONNECT+CLOSE callbacks for every id (Agent.SocksCli; up to 4097), download = FS download-open or BEACON CALLBACK_FILE under an outstanding request id (Agent.Downloads, one file each; up to 4097), links = DEMON_PIVOT_SMB_CONNECT with the registration of one more SMB child (Pivots.Links + session table; up to 1025), bof = Agent.TaskPrepare(COMMAND_INLINEEXECUTE, HasCallback) + AddJobToQueue as DispatchEvent does, then BEACON output + RAN_OK / COULD_NOT_RUN for every task (BofCallbacks, Tasks, JobQueue incl. mem-file chunks; up to 2049), jobs = the same with sleep tasks and their callbacks (Tasks, JobQueue; up to 2049), sessions = N DEMON_INIT registrations with distinct agent ids (session table; up to 1025), callbacks = one generated layout of the focus family repeated N times, one of its free integer fields (preferably the first = the object id) taking the N ids, every copy answering an outstanding request id of its own (N outstanding ids through AddRequest) or the shared one (up to 4097); the quick tier cuts the pool at what one case affords (8193 only for table appends; ~1 ms per session / link), the thorough tier goes one step further up (8193 / 4097 / 2049). The bulk is cut into requests of PerReq callbacks: all N in ONE request (64-8193 sub-packages in a batch), one per request (up to 1025 requests in the case) or a threshold-adjacent number; via the HTTP engine or External-C2; one in four of the bulks of a state with an SMB child belongs to the child and arrives relayed inside SMB_COMMAND packages of agent 0. The 2-6 ordinary requests of the case focus on the family of the bulk and are placed before it, between its two halves and after it. Oracle at scale: every bulk request returns within 30 s with 200/404 and without panic; at the checkpoints (after the first half, when the count is reached, after ONE MORE object of the same kind sent through the ordinary path with the whole oracle, and after the closing plain check-ins) no session entry is nil and PortFwdsMtx, SocksCliMtx, SocksSvrMtx and QueueMtx of every session can be taken; the closing check-in of the session (which exists) must get the protocol reply 200. CONFIGURATION / ENVIRONMENT (cfg_test.go; labels cfg:<option>=<class>, env:<condition>, http:/method:/target:/proto:/remote:/hdr:/hval:/xff:<class>, also published as the extra counter a_cfg_env_http_label_counts_last_shard): the HTTP listener of the case is built from a GENERATED configuration - half of the cases keep the historical default (nothing configured), the others draw every option (*HTTP).request reads on its own: BehindRedir = profile Demon { TrustXForwardedFor } (three in four), Uris (none, a single empty entry = no filter, one, two incl. a query, escaped + root, 300 bytes), Headers (one, two incl. a value containing \": \", only the ignored Connection / Accept-Encoding, an entry without \": \", an empty value), UserAgent (browser string, short), Response.Headers (plain, value with colons + entry without colon, empty name), plus HostHeader and Methode (carried in the configuration; request() does not read them; Secure is out: the engine is driven in-process); under a configured listener all state-building and bulk requests go out in the shape its filters demand. Two requests in five carry a generated HTTP LAYER as the peer controls it - written to wire bytes and read back by net/http's own request reader plus the pre-handler checks of its server (agx.HTTPReq; self-test against a real http.Server in agx/http_test.go), so the handler sees exactly what a socket delivers, and a request net/http answers by itself is counted (\"net/http refuses\") but not judged: method (POST; GET PUT HEAD OPTIONS DELETE PATCH CONNECT, lower / mixed case, unknown, syntactically invalid), request-target (/, a configured URI, with query / trailing slash / in absolute form, 8193 bytes, 8193-byte query, %00, %2f..%2f, //, /../.., /./, raw NUL, bad escape, absolute form with and without path, *, non-ASCII, fragment), HTTP/1.0 and requests without Host, remote address IPv4 / IPv6 / IPv6 zone, and 0-4 header lines (or 64 / 65 / 1024 / 1025 lines of one name) whose names come from the ones HEAD reads (X-Forwarded-For weighted, User-Agent, Host, Content-Type, Content-Length, Transfer-Encoding, Connection, Accept-Encoding, the configured names) and unknown / invalid names in varying case, with values from the classes empty, blanks only, tab only, one comma, commas only, comma(s) and blanks, lists with a leading / inner / trailing empty member, 8193 bytes, 8193 commas, a 1000-member list, non-ASCII, HTAB inside, a control character, quoted, \": \" inside, the configured value / user agent in the same and in swapped case, IPv4 / IPv4 list / IPv6 / bracketed IPv6 with port / IPv6 zone / IPv4 with port / garbage / unknown / out-of-range octets for X-Forwarded-For, Content-Length = real, 0, real-1, real+1, non-numeric, huge, signed, Transfer-Encoding chunked (with a really chunked body or not) / gzip / identity; half of the layers are built to pass the listener's filters (configured target, lines and user agent before or after the generated lines), and behind a redirector three layers in four carry the X-Forwarded-For line a redirector adds. Environment: time.Local set for the case (UTC, +05:30, -08:00, +12:00, +14:00, -12:00, +05:45; restored); one case in four registers its agents with a kill date in the past / future / now-1s / now+1s and / or working hours that contain / exclude the local time; one case in 64 handles ONE of its requests with RLIMIT_NOFILE lowered to 0, 1 or 2 free descriptors (restored before the oracle reads state) - that case runs in a child process of its own (TestC01Child), because the code under test may end the process: a child that ends without a verdict is the violation process-exit|fd-limit|<last line>; a child that cannot be started or does not finish is counted as no verdict (a_env_fd_limit_no_verdict_last_shard). Oracle under configuration: unchanged - no panic (the in-process ServeHTTP call panics straight into the guard), returns within 30 s, 200/404, mutexes free; what a configuration legitimately changes is modelled per HEAD: a request the router does not hand to request() (method other than POST: gin's or the decoy's 404; an empty path: gin's 301/307 redirect) or that fails the configured header (case-insensitive value, first line of the name, Connection / Accept-Encoding ignored) / URI (exact request-target) / user-agent (exact) filter is rejected traffic: never 200, state untouched; a request whose announced framing delivers other body bytes than the classified ones is judged on panic / termination / status / locks only.",
		Gen:   gen, Check: check, Classify: classify,
		Assumptions: []string{
			"no third-party agent type is registered in generated states, so every non-Demon magic value is invalid traffic",
			"outbound dials caused by reverse-port-forward callbacks go to 127.0.0.1 or fail fast in the sealed sandbox",
			"configuration: the listener's front end is modelled per HEAD (router: POST /*endpoint -> request, GET -> decoy, others -> gin 404; filters as request() applies them); options request() does not read (HostHeader, Methode, Hosts, HostRotation, proxy, kill date / working hours of the LISTENER) only ride along; TLS (Secure) is not exercised because the engine is driven in-process; header values are valid UTF-8 so that a case replays byte-exactly from JSON",
			"scale: operator-side objects (tasks, BOF callbacks, socks clients) are created by the calls the teamserver itself makes for them (TaskPrepare+AddJobToQueue, SocksClientAdd, AddRequest), not through an operator websocket; the socks client end of every bulk socket is a pipe whose other end is drained",
		},
	})
}

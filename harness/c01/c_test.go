package c01

// C01(c): overlapping requests.  A listener serves every request on a goroutine of its
// own, and nothing stops two requests of one session from overlapping (a retransmitted
// check-in, the same agent polled through the HTTP listener and the External-C2 endpoint,
// a pivot parent relaying while the child's own link is still up).  Whatever overlaps,
// handling of each request must end with a protocol reply or the decoy 404: no panic, no
// request that never returns, no lock left held.
//
// Not built with -race: two overlapping requests of ONE session race on the session's metadata
// (Agent.Info.* is written by TaskDispatch / UpdateLastCallback and read by db.AgentUpdate without
// synchronisation).  That is a real weakness of the code but an open-ended family of report pairs,
// and freedom from data races is not what C01 states; it is recorded in DESIGN.md as an observation.

import (
	"fmt"
	"sync"
	"testing"
	"time"

	"Havoc/pkg/agent"

	"pgregory.net/rapid"

	"verifharness/internal/agx"
	"verifharness/internal/core"
	"verifharness/internal/demonref"
	"verifharness/internal/tsx"
)

type ReqC struct {
	Agent int    `json:"agent"` // index into the registered agents
	Kind  string `json:"kind"`  // getjob | output | sleep-callback | random
	Via   string `json:"via"`   // http | ext
	Raw   []byte `json:"raw,omitempty"`
}

type CaseC struct {
	NAgents int      `json:"n_agents"` // 1-2
	Queued  []int    `json:"queued"`   // jobs queued per agent before the requests start
	Threads [][]ReqC `json:"threads"`  // 2-4 threads of 1-4 requests each, released at once
}

func genC(t *rapid.T) CaseC {
	c := CaseC{NAgents: rapid.IntRange(1, 2).Draw(t, "nagents")}
	for i := 0; i < c.NAgents; i++ {
		c.Queued = append(c.Queued, rapid.SampledFrom([]int{0, 1, 3, 40, 600, 5000}).Draw(t, "queued"))
	}
	nt := rapid.IntRange(2, 4).Draw(t, "threads")
	for i := 0; i < nt; i++ {
		var th []ReqC
		n := rapid.IntRange(1, 4).Draw(t, "nreq")
		for j := 0; j < n; j++ {
			r := ReqC{
				Agent: rapid.IntRange(0, c.NAgents-1).Draw(t, "agent"),
				Kind:  rapid.SampledFrom([]string{"getjob", "getjob", "getjob", "output", "sleep-callback", "random"}).Draw(t, "kind"),
				Via:   rapid.SampledFrom([]string{"http", "http", "ext"}).Draw(t, "via"),
			}
			if r.Kind == "random" {
				r.Raw = rapid.SliceOfN(rapid.Byte(), 0, 64).Draw(t, "raw")
			}
			th = append(th, r)
		}
		c.Threads = append(c.Threads, th)
	}
	return c
}

func checkC(c CaseC) *core.Violation {
	w, err := agx.NewWorldNoSocket(tsx.BasicProfile(map[string]string{"op": "pw"}, nil))
	if err != nil {
		panic("infrastructure: " + err.Error())
	}
	defer w.Close()
	var sess []agx.Sess
	for i := 0; i < c.NAgents; i++ {
		k, iv := keyOf(i, false)
		s := agx.Sess{ID: agentIDs[i], Key: k, IV: iv, Meta: agx.DefaultMeta(agentIDs[i])}
		if code, _ := w.Register(s); code != 200 {
			return core.V("setup|register-refused", "registration refused: %d", code)
		}
		sess = append(sess, s)
		a := w.Agent(s.ID)
		for j := 0; j < c.Queued[i]; j++ {
			a.AddJobToQueue(agent.Job{Command: agent.COMMAND_SLEEP, RequestID: uint32(0x5000 + j), Data: []interface{}{int32(j), int32(1)}})
		}
		a.AddRequest(agent.Job{RequestID: outstanding, Command: agent.COMMAND_SLEEP})
	}
	build := func(r ReqC) []byte {
		s := sess[r.Agent]
		switch r.Kind {
		case "output":
			return demonref.Batch(s.ID, 0, []demonref.Sub{{Cmd: 90, ReqID: outstanding, Body: (&demonref.Enc{}).String("overlap").B}}, s.Key, s.IV)
		case "sleep-callback":
			return demonref.Batch(s.ID, 0, []demonref.Sub{{Cmd: 11, ReqID: 0x5000, Body: (&demonref.Enc{}).Int32(7).Int32(1).B}}, s.Key, s.IV)
		case "random":
			return r.Raw
		}
		return demonref.Batch(s.ID, 0, nil, s.Key, s.IV)
	}
	var (
		mu    sync.Mutex
		first *core.Violation
		wg    sync.WaitGroup
		start = make(chan struct{})
	)
	fail := func(v *core.Violation) {
		mu.Lock()
		if first == nil {
			first = v
		}
		mu.Unlock()
	}
	for ti, th := range c.Threads {
		wg.Add(1)
		go func(ti int, th []ReqC) {
			defer wg.Done()
			<-start
			for ri, r := range th {
				body := build(r)
				v := core.Guard(func() *core.Violation {
					var code int
					if r.Via == "ext" {
						code, _ = w.PostExt(body)
					} else {
						code, _ = w.Post(body)
					}
					if code != 200 && code != 404 {
						return core.V("overlap|status|"+r.Kind, "thread %d request %d (%s via %s) answered %d", ti, ri, r.Kind, r.Via, code)
					}
					if code == 404 && r.Kind != "random" {
						return core.V("overlap|valid-request-refused|"+r.Kind, "thread %d request %d: a well-formed %s of a registered session was answered with the decoy while other requests were in flight", ti, ri, r.Kind)
					}
					return nil
				})
				if v != nil {
					if len(v.Sig) > 6 && v.Sig[:6] == "panic|" {
						v.Sig += "|overlapping-requests"
					}
					fail(v)
					return
				}
			}
		}(ti, th)
	}
	if v := core.WithWatchdog(60*time.Second, "overlapping-requests", func() *core.Violation { close(start); wg.Wait(); return nil }); v != nil {
		return v
	}
	if first != nil {
		return first
	}
	// no lock left held: every agent can still be tasked and checked in
	for i, s := range sess {
		s := s
		if v := core.WithWatchdog(20*time.Second, fmt.Sprintf("check-in-after-overlap(agent %d)", i), func() *core.Violation {
			w.Agent(s.ID).AddJobToQueue(agent.Job{Command: agent.COMMAND_SLEEP, RequestID: 0x7777, Data: []interface{}{int32(1), int32(1)}})
			if code, _ := w.Post(demonref.Batch(s.ID, 0, nil, s.Key, s.IV)); code != 200 {
				return core.V("overlap|later-check-in-status", "a check-in after the overlapping requests answered %d", code)
			}
			return nil
		}); v != nil {
			return v
		}
	}
	return nil
}

func classifyC(c CaseC) core.Class {
	same := 0
	perAgent := map[int]int{}
	getjobs := map[int]int{}
	n := 0
	for _, th := range c.Threads {
		seen := map[int]bool{}
		for _, r := range th {
			n++
			if !seen[r.Agent] {
				seen[r.Agent] = true
				perAgent[r.Agent]++
			}
			if r.Kind == "getjob" {
				getjobs[r.Agent]++
			}
		}
	}
	for _, v := range perAgent {
		if v >= 2 {
			same++
		}
	}
	big := false
	for _, q := range c.Queued {
		big = big || q >= 600
	}
	cl := core.Class{NonTrivial: same > 0, Fingerprint: fmt.Sprintf("agents=%d|threads=%d|same-session=%v|bigqueue=%v|reqs=%d", c.NAgents, len(c.Threads), same > 0, big, n/4)}
	cl.Labels = []string{fmt.Sprintf("threads:%d", len(c.Threads))}
	if same > 0 {
		cl.Labels = append(cl.Labels, "two-threads-on-one-session")
	}
	for _, g := range getjobs {
		if g >= 2 {
			cl.Labels = append(cl.Labels, "overlapping-check-ins-of-one-session")
			break
		}
	}
	if big {
		cl.Labels = append(cl.Labels, "long-queue")
	}
	return cl
}

func TestC01c(t *testing.T) {
	core.Run(t, core.Spec[CaseC]{
		Property: "C01", Sub: "c",
		Rule: "1-2 registered agents with 0 / 1 / 3 / 40 / 600 / 5000 queued jobs; 2-4 goroutines, released at once, each sending 1-4 requests (check-in asking for jobs, output callback, callback answering a queued task, random bytes) for generated agents through the HTTP listener engine or the External-C2 handler. Oracle: every request returns 200 or 404 (404 only for random bytes), no panic, everything returns within 60 s, afterwards every agent can be tasked and checked in (no lock left held). Non-trivial: two goroutines address the same session",
		Gen:   genC, Check: checkC, Classify: classifyC,
		Assumptions: []string{"the Go scheduler is not controlled: overlaps are sampled (long queues widen the window inside GetQueuedJobs / BuildPayloadMessage)"},
	})
}

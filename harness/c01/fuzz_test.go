package c01

// Native fuzz target for the thorough tier: the fuzzer mutates the *plaintext* of a
// batch (everything after the 20-byte header); the target encrypts it under the
// registered agent's key (CTR: ciphertext mutations would be plaintext mutations anyway,
// this way coverage guidance works on the decoder, not on the cipher) and sends it to
// the listener engine of a fresh world.  Same oracle as TestC01.

import (
	"fmt"
	"testing"
	"time"

	"Havoc/pkg/agent"

	"pgregory.net/rapid"

	"verifharness/internal/agx"
	"verifharness/internal/core"
	"verifharness/internal/demonref"
)

func seedBodies() [][]byte {
	var out [][]byte
	for i, lay := range layouts {
		lay := lay
		b := rapid.Custom(func(t *rapid.T) []byte {
			rapid.Bool().Draw(t, "dummy") // Example() insists on at least one draw
			g := &bodyGen{t: t, e: &demonref.Enc{}}
			g.run(lay.tmpl)
			e := &demonref.Enc{}
			e.Int32(lay.cmd).Int32(outstanding).Bytes(g.e.B)
			return e.B
		}).Example(i + 1)
		out = append(out, b)
	}
	return out
}

func FuzzListener(f *testing.F) {
	for _, b := range seedBodies() {
		f.Add(byte(1), b)
		f.Add(byte(3), b)
	}
	f.Fuzz(func(t *testing.T, flags byte, plain []byte) {
		if len(plain) > 1<<16 {
			return
		}
		w, err := agx.NewWorld(nil)
		if err != nil {
			t.Skip("infrastructure: " + err.Error())
		}
		defer w.Close()
		k, iv := keyOf(0, false)
		s := agx.Sess{ID: agentIDs[0], Key: k, IV: iv, Meta: agx.DefaultMeta(agentIDs[0])}
		if code, _ := w.Register(s); code != 200 {
			t.Fatalf("violation [setup|register-refused]")
		}
		if flags&2 != 0 { // an SMB child, so that relayed packages have a target
			ck, civ := keyOf(9, false)
			body := (&demonref.Enc{}).Int32(10).Int32(1).Bytes(agx.DefaultMeta(childID).InitPackage(childID, ck, civ)).B
			w.Checkin(s, []demonref.Sub{{Cmd: 2520, ReqID: 0, Body: body}})
		}
		for _, a := range w.TS.Agents.Agents {
			a.AddRequest(agent.Job{RequestID: outstanding, Command: agent.COMMAND_SLEEP})
		}
		e := demonref.Header(demonref.Magic, s.ID, demonref.CmdGetJob, 0)
		pkg := demonref.Finish(append(e.B, demonref.XCrypt(plain, k, iv)...))
		var code int
		v := core.WithWatchdog(30*time.Second, "request|fuzz", func() *core.Violation {
			if flags&1 != 0 {
				code, _ = w.Post(pkg)
			} else {
				code, _ = w.PostExt(pkg)
			}
			return nil
		})
		if v != nil {
			t.Fatalf("violation [%s] %s", v.Sig, v.Msg)
		}
		if code != 200 && code != 404 {
			t.Fatalf("violation [status|fuzz] HTTP status %d", code)
		}
		for _, a := range w.TS.Agents.Agents {
			if a == nil {
				t.Fatalf("violation [state|nil-session|fuzz]")
			}
			for n, m := range map[string]interface {
				TryLock() bool
				Unlock()
			}{"PortFwdsMtx": &a.PortFwdsMtx, "SocksCliMtx": &a.SocksCliMtx, "SocksSvrMtx": &a.SocksSvrMtx} {
				if !m.TryLock() {
					t.Fatalf("violation [lock-held|%s|fuzz] %s still held", n, fmt.Sprint(a.NameID))
				}
				m.Unlock()
			}
		}
	})
}

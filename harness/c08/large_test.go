package c08

// LARGE-PAYLOAD dimension: the property quantifies over ALL tasks, and the tasks the operator path
// really produces for a pivot agent include the mem-file chunks of a pushed file (fs upload ->
// UploadMemFileInChunks: up to DEMON_MAX_RESPONSE_LENGTH = 30 MiB per task), every one of which is
// wrapped - and encrypted again, as a whole - once per hop; in the other direction a relayed frame
// carries whatever the agent has to say (a long COMMAND_OUTPUT).  About 1 case in 50 therefore
// moves ONE payload of a size from a threshold-adjacent pool (64 KiB .. 4 MiB in the quick tier,
// up to 16 MiB + 1 in the thorough tier) before the ordinary steps of the check:
//
//   down - the operator uploads a file of that size to one agent of the tree (mostly the target)
//          through Session/Input; the first hop polls until nothing is left; every task of every
//          reply is followed down the tree layer by layer with each hop's own key; what arrives at
//          the agent must be mem-file records [id][total][bytes] with one id, total = file size,
//          concatenating to exactly the file, followed by the fs/upload task naming that id
//   up   - the agent answers an outstanding task of its own with an output of that size, wrapped once
//          per ancestor; exactly that text must appear once, on that agent's session
//
// Because a payload of n bytes advances the AES-CTR counter of every layer by n/16 blocks, the
// interesting IVs are no longer only the ones that carry within the first few blocks (IVEdge): in 3
// of 4 large cases one agent of the chain gets an IV whose low 32 / 64 / 96 / 128 counter bits carry
// after a generated number of blocks somewhere INSIDE (or just past) the payload.  The Demon and
// crypto/cipher count all 16 bytes as one big-endian counter, wherever the carry happens.

import (
	"encoding/base64"
	"fmt"
	"os"
	"strings"

	"pgregory.net/rapid"

	"Havoc/pkg/agent"

	"verifharness/internal/agx"
	"verifharness/internal/core"
	"verifharness/internal/demonref"
)

type Large struct {
	Size int    `json:"size"`          // bytes of the file / of the output text
	Dir  string `json:"dir"`           // down | up | both
	Who  int    `json:"who"`           // agent of the tree (0 = first hop .. depth = target, depth+1 = sibling; modulo the number of agents)
	Fill byte   `json:"fill"`          // varies the content
	// counter carry inside the payload: agent CarryAgent-1 of the chain (0 = nobody) gets an IV whose low
	// CarryBits bits are 2^CarryBits - CarryAt, i.e. they run over after CarryAt blocks of key stream
	CarryAgent int `json:"carry_agent,omitempty"`
	CarryBits  int `json:"carry_bits,omitempty"`
	CarryAt    int `json:"carry_at,omitempty"`
}

const miB = 1 << 20

// interleaved like poolUpTo: rapid prefers the front of a sample list
var largePoolQuick = []int{miB + 1, 2 * miB, 3*miB + 17, miB - 64, 4*miB + 1, 65536, miB, 2*miB - 1, miB + 4096, 2*miB + 1, 65537}
var largePoolThorough = []int{6 * miB, 8*miB + 1, 5 * miB, 16*miB + 1, 12 * miB} // (files around the 30 MiB chunk size behind pivot chains: C04 b)

func largeBucket(n int) string {
	switch {
	case n <= miB:
		return "64KiB-1MiB"
	case n <= 2*miB+1:
		return "1-2MiB"
	case n <= 4*miB+1:
		return "2-4MiB"
	case n <= 8*miB+1:
		return "4-8MiB"
	}
	return "8MiB+"
}

func genLarge(t *rapid.T, c *Case) {
	if rapid.IntRange(0, 29).Draw(t, "large?") != 17 || c.Scale != nil || os.Getenv("VERIF_C08_NOLARGE") != "" {
		return
	}
	depth := len(c.IDs) - 1
	pool := largePoolQuick
	if core.Tier() == "thorough" {
		pool = append(append(append([]int(nil), largePoolQuick...), largePoolThorough...), largePoolQuick...)
	}
	l := &Large{}
	l.Size = rapid.SampledFrom(pool).Draw(t, "large-size")
	l.Dir = rapid.SampledFrom([]string{"down", "down", "up", "both"}).Draw(t, "large-dir")
	if l.Size > 8*miB+1 && l.Dir != "down" {
		l.Dir = "down" // (an agent's frame is bounded by its own DEMON_MAX_REQUEST_LENGTH; kept well below)
	}
	l.Who = depth
	if rapid.IntRange(0, 3).Draw(t, "large-who?") == 0 {
		l.Who = rapid.IntRange(0, depth+1).Draw(t, "large-who")
	}
	l.Fill = rapid.Byte().Draw(t, "large-fill")
	if rapid.IntRange(0, 3).Draw(t, "carry?") != 0 {
		l.CarryAgent = 1 + rapid.IntRange(0, depth).Draw(t, "carry-agent")
		l.CarryBits = rapid.SampledFrom([]int{32, 64, 32, 96, 128}).Draw(t, "carry-bits")
		blocks := l.Size/16 + 8
		l.CarryAt = rapid.OneOf(
			rapid.IntRange(1, blocks),
			rapid.SampledFrom([]int{1, 2, 65535, 65536, 65537, 4096, 131072, blocks / 2, blocks}),
		).Draw(t, "carry-at")
	}
	c.Large = l
}

// largeIV: the IV of chain agent i under the case's Large block (unchanged unless it is the carry agent).
func largeIV(c Case, i int, iv []byte) []byte {
	l := c.Large
	if l == nil || l.CarryAgent-1 != i || l.CarryAt <= 0 || len(iv) != 16 {
		return iv
	}
	nb := l.CarryBits / 8
	if nb < 1 || nb > 16 {
		nb = 4
	}
	out := append([]byte(nil), iv...)
	// low nb bytes = 2^(8nb) - CarryAt, big endian
	borrow := uint64(l.CarryAt)
	v := make([]byte, nb)
	// two's complement of CarryAt in nb bytes
	for k := 0; k < nb; k++ {
		v[nb-1-k] = ^byte(borrow >> (8 * uint(k))) // (a shift by >= 64 gives 0)
	}
	for k := nb - 1; k >= 0; k-- { // + 1
		v[k]++
		if v[k] != 0 {
			break
		}
	}
	copy(out[16-nb:], v)
	return out
}

func largeFile(n int, fill byte) []byte {
	b := make([]byte, n)
	for i := range b {
		b[i] = byte(i*7+i>>11) + fill
	}
	return b
}

func largeText(n int, fill byte) []byte {
	b := make([]byte, n)
	for i := range b {
		b[i] = 'a' + byte((i*7+i>>11+int(fill))%26)
	}
	return b
}

func firstDiff(a, b []byte) int {
	n := len(a)
	if len(b) < n {
		n = len(b)
	}
	for i := 0; i < n; i++ {
		if a[i] != b[i] {
			return i
		}
	}
	if len(a) != len(b) {
		return n
	}
	return -1
}

// pollAll: the first hop polls until it is told there is nothing left; every task of every reply is
// followed down the tree.  Returns what arrived, per agent of the tree, in order.
func pollAll(w *agx.World, ns []tnode, tag, when string) (map[int][]demonref.Task, int, *core.Violation) {
	root := ns[0].s
	got := map[int][]demonref.Task{}
	polls := 0
	for ; polls < 12; polls++ {
		code, resp := w.Post(demonref.Batch(root.ID, 0, nil, root.Key, root.IV))
		if code != 200 {
			return nil, polls, core.V("down|checkin-status", "first hop check-in answered %d (%s)", code, when)
		}
		top, ok := demonref.ReadTasks(resp, root.Key, root.IV, 0, "")
		if !ok {
			return nil, polls, core.V("down|framing|hop0|"+tag, "first hop reply is not a clean task sequence (%s)", when)
		}
		if len(top) == 0 || (len(top) == 1 && top[0].Cmd == demonref.CmdNoJob) {
			return got, polls, nil
		}
		for ti, t := range top {
			at, inner, v := unwrapTree(ns, t, ti, tag)
			if v != nil {
				v.Msg += " [" + when + "]"
				return nil, polls, v
			}
			got[at] = append(got[at], inner)
		}
	}
	return nil, polls, core.V("down|large|queue-never-empties|"+tag, "%s: after %d polls the first hop is still handed tasks", when, polls)
}

func largePhase(c Case, w *agx.World, chain []sess, side sess, tag string) *core.Violation {
	l := c.Large
	if l == nil || l.Size <= 0 {
		return nil
	}
	depth := len(chain) - 1
	ns := buildTree(c, chain, side)
	idx := resolveWho(l.Who, len(ns))
	who := ns[idx].s
	role := roleOf(idx, depth)
	tag += "|large"
	ids := newReqAlloc(c)
	hops := idx
	if idx > depth {
		hops = depth // the sibling hangs off the target's parent
	}
	carry := "no agent"
	if l.CarryAgent > 0 && l.CarryAgent-1 <= depth {
		carry = fmt.Sprintf("%s %08x (iv %x)", roleOf(l.CarryAgent-1, depth), chain[l.CarryAgent-1].ID, chain[l.CarryAgent-1].IV)
	}
	req := ids.get()

	if l.Dir == "down" || l.Dir == "both" {
		file := largeFile(l.Size, l.Fill)
		name := "C:\\up\\" + c.UpMarker + ".bin"
		when := fmt.Sprintf("fs upload of %d bytes to %s %08x behind %d hop(s); counter of %s carries after %d blocks in its low %d bits", l.Size, role, who.ID, hops, carry, l.CarryAt, l.CarryBits)
		w.Input(opUser(), map[string]interface{}{
			"DemonID": who.NameID(), "CommandID": fmt.Sprint(agent.COMMAND_FS), "TaskID": fmt.Sprintf("%08x", req),
			"CommandLine": "upload " + name, "SubCommand": "upload",
			"Arguments": base64.StdEncoding.EncodeToString([]byte(name)) + ";" + base64.StdEncoding.EncodeToString(file),
		})
		got, _, v := pollAll(w, ns, tag, when)
		if v != nil {
			return v
		}
		for at, ts := range got {
			if at != idx && len(ts) > 0 {
				return core.V(fmt.Sprintf("down|large|task-at-another-agent|of=%s|%s", role, tag), "%s: %d task(s) (first: cmd %d req %08x) open at %s %08x", when, len(ts), ts[0].Cmd, ts[0].ReqID, roleOf(at, depth), ns[at].s.ID)
			}
		}
		ts := got[idx]
		if len(ts) < 2 {
			return core.V(fmt.Sprintf("down|large|task-lost|of=%s|%s", role, tag), "%s: %d task(s) arrived, at least one mem-file record and the fs task were issued", when, len(ts))
		}
		var fileID uint32
		var cat []byte
		for i, t := range ts[:len(ts)-1] {
			if t.Cmd != agent.COMMAND_MEM_FILE {
				return core.V(fmt.Sprintf("down|large|task-header|at=%s|%s", role, tag), "%s: task %d of %d is cmd %d, expected a mem-file record", when, i, len(ts), t.Cmd)
			}
			d := &demonref.Dec{B: t.Body}
			id, total, data := d.Int32(), d.Int64(), d.Bytes()
			if d.Err || d.Len() != 0 {
				return core.V(fmt.Sprintf("down|large|chunk-malformed|at=%s|%s", role, tag), "%s: mem-file record %d under the key of %s does not read as [id][total][bytes] (%d bytes left, err=%v)", when, i, role, d.Len(), d.Err)
			}
			if i == 0 {
				fileID = id
			}
			if id != fileID || total != uint64(l.Size) {
				return core.V(fmt.Sprintf("down|large|chunk-header|at=%s|%s", role, tag), "%s: mem-file record %d reads id %08x total %d, the file has id %08x and %d bytes", when, i, id, total, fileID, l.Size)
			}
			cat = append(cat, data...)
		}
		if at := firstDiff(cat, file); at >= 0 {
			return core.V(fmt.Sprintf("down|large|content-differs|at=%s|%s", role, tag), "%s: the mem-file records under the key of %s carry %d bytes, the file has %d; they differ from byte %d on (%.2f MiB into the file)", when, role, len(cat), len(file), at, float64(at)/miB)
		}
		last := ts[len(ts)-1]
		if last.Cmd != agent.COMMAND_FS || last.ReqID != req {
			return core.V(fmt.Sprintf("down|large|task-header|at=%s|%s", role, tag), "%s: the task after the mem-file records is cmd %d req %08x, issued fs/upload req %08x", when, last.Cmd, last.ReqID, req)
		}
		d := &demonref.Dec{B: last.Body}
		if sub, fn, id := d.Int32(), demonref.WCString(d.Bytes()), d.Int32(); sub != 3 || fn != name || id != fileID || d.Err {
			return core.V(fmt.Sprintf("down|large|task-args|at=%s|%s", role, tag), "%s: fs task reads sub %d name %q mem-file %08x, operator sent upload %q of mem-file %08x", when, sub, fn, id, name, fileID)
		}
	} else {
		// an ordinary task of the agent, delivered, which it then answers at length
		exp := map[int][]*expTask{}
		e := &expTask{req: req, cmd: 11, a: c.Jitter + 1, b: c.Delay % 101, n: 1}
		opSleep(w, who, e.req, e.a, e.b)
		exp[idx] = append(exp[idx], e)
		if v := pollExact(w, ns, len(ns), exp, depth, tag, "task to be answered by a large output"); v != nil {
			return v
		}
	}

	if l.Dir == "up" || l.Dir == "both" {
		text := largeText(l.Size, l.Fill)
		from := len(w.TS.EventsList)
		sub := demonref.Sub{Cmd: agent.COMMAND_OUTPUT, ReqID: req, Body: (&demonref.Enc{}).Bytes(text).B}
		pkg := demonref.Batch(who.ID, 0, []demonref.Sub{sub}, who.Key, who.IV)
		if code, _ := w.Post(wrapUp(chain, hops, pkg)); code != 200 {
			return core.V("up|large|status|"+tag, "a relayed output callback of %d bytes was answered %d", l.Size, code)
		}
		head := fmt.Sprintf("Received Output [%d bytes]:", l.Size)
		hits := 0
		for id, txs := range consoleTexts(w.EventsSince(from)) {
			for _, tx := range txs {
				if !strings.Contains(tx, "Received Output [") {
					continue
				}
				if id != who.NameID() {
					return core.V(fmt.Sprintf("up|large|misattributed|of=%s|%s", role, tag), "an output callback of %d bytes of %s %08x, relayed through %d hop(s), was attributed to session %s", l.Size, role, who.ID, hops, id)
				}
				k := strings.Index(tx, "\n")
				if k < 0 || tx[:k] != head {
					return core.V(fmt.Sprintf("up|large|output-size|of=%s|%s", role, tag), "%s %08x sent %d bytes of output through %d hop(s); its console says %q", role, who.ID, l.Size, hops, clipStr(tx, 60))
				}
				if at := firstDiff([]byte(tx[k+1:]), text); at >= 0 {
					return core.V(fmt.Sprintf("up|large|content-differs|of=%s|%s", role, tag), "%s %08x sent %d bytes of output for its outstanding task through %d hop(s) (counter of %s carries after %d blocks in its low %d bits); the text on its console differs from byte %d on (%.2f MiB)", role, who.ID, l.Size, hops, carry, l.CarryAt, l.CarryBits, at, float64(at)/miB)
				}
				hits++
			}
		}
		if hits != 1 {
			what := "dropped"
			if hits > 1 {
				what = "repeated"
			}
			return core.V(fmt.Sprintf("up|large|%s|of=%s|%s", what, role, tag), "%s %08x answered its outstanding task %08x with %d bytes of output, relayed through %d hop(s) (counter of %s carries after %d blocks in its low %d bits); it appears %d times on its console", role, who.ID, req, l.Size, hops, carry, l.CarryAt, l.CarryBits, hits)
		}
	}
	return nil
}

func clipStr(s string, n int) string {
	if len(s) > n {
		return s[:n] + "..."
	}
	return s
}

func largeLabels(c Case) ([]string, string) {
	l := c.Large
	if l == nil || l.Size <= 0 {
		return nil, ""
	}
	depth := len(c.IDs) - 1
	n := depth + 1
	if c.Side && depth >= 1 {
		n++
	}
	idx := resolveWho(l.Who, n)
	role := roleOf(idx, depth)
	b := largeBucket(l.Size)
	var out []string
	if l.Dir == "down" || l.Dir == "both" {
		out = append(out, "large:fs-upload-chunk-wrapped-per-hop:"+b, "large:file-for:"+role)
	}
	if l.Dir == "up" || l.Dir == "both" {
		out = append(out, "large:relayed-output-callback:"+b, "large:output-of:"+role)
	}
	fp := l.Dir + "/" + b
	if l.CarryAgent > 0 && l.CarryAgent-1 <= depth && l.CarryAt > 0 {
		ci := l.CarryAgent - 1
		onPath := (idx <= depth && ci <= idx) || (idx > depth && ci < depth)
		where := "off-the-path"
		if onPath {
			where = roleOf(ci, depth)
			if ci == idx {
				where = "addressee"
			}
		}
		out = append(out, fmt.Sprintf("large:counter-carry-of-low-%d-bits:agent=%s", l.CarryBits, where))
		pos := "past-the-payload"
		switch {
		case l.CarryAt*16 <= 4096:
			pos = "within-first-4KiB"
		case l.CarryAt*16 <= miB && l.CarryAt*16 <= l.Size:
			pos = "within-first-MiB"
		case l.CarryAt*16 <= l.Size:
			pos = "beyond-first-MiB-inside-the-payload"
		}
		out = append(out, "large:counter-carries:"+pos)
		if onPath && l.Size > miB && l.CarryAt*16 <= l.Size {
			out = append(out, "large:conj:payload>1MiB-x-carry-inside-x-agent-on-path")
		}
		fp += "/carry"
	}
	return out, fp
}

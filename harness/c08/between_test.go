package c08

// 'operator commands between issue and poll': tasks are queued for SEVERAL agents of the tree
// (the target, its ancestors, the sibling), then - before the first hop polls - the operator
// runs further commands through the real paths (DispatchEvent: Session/Input with CommandID
// "Teamserver" -> TeamserverTaskPrepare `task::clear` / `task::list`; a further task for some
// agent; Session/MarkAsDead).  The oracle stays the property's: whatever was issued for agent X
// and was not in a queue the operator cleared reaches the first hop wrapped once per hop and
// opens, layer by layer, to exactly that task under X's key - in the order of issue.
//
// Which queue `task::clear` empties (reference tree): the NAMED agent's own JobQueue.  For the
// directly connected first hop that is the queue every wrapped job waits in (so everything
// pending may go); for a pivot agent it is its own list.  Tasks that were in a cleared queue are
// OPTIONAL for the oracle (delivered or not, but if delivered then correctly wrapped and once);
// tasks of every agent whose queue the operator did not clear are REQUIRED.

import (
	"encoding/binary"
	"fmt"
	"sort"
	"strings"

	"Havoc/pkg/packager"

	"pgregory.net/rapid"

	"verifharness/internal/agx"
	"verifharness/internal/core"
	"verifharness/internal/demonref"
)

// ExtraTask: one more task queued together with the target's two.  Who: 0 = first hop (root),
// 1..depth-1 = hops, depth = target, depth+1 = sibling (resolved modulo the number of agents).
// Pos: 0 before the target's sleep task, 1 between its two tasks, 2 after them.
type ExtraTask struct {
	Who int `json:"who"`
	Pos int `json:"pos"`
}

// BetweenOp: clear | list | task | mark-alive | mark-sibling-dead
type BetweenOp struct {
	Kind string `json:"kind"`
	Who  int    `json:"who"`
}

func genBetween(t *rapid.T, c *Case) {
	depth := len(c.IDs) - 1
	maxWho := depth
	if c.Side {
		maxWho = depth + 1
	}
	if rapid.IntRange(0, 2).Draw(t, "extra?") == 0 {
		n := rapid.IntRange(1, 4).Draw(t, "extras")
		for i := 0; i < n; i++ {
			c.Extra = append(c.Extra, ExtraTask{Who: rapid.IntRange(0, maxWho).Draw(t, "extra-who"), Pos: rapid.IntRange(0, 2).Draw(t, "extra-pos")})
		}
	}
	cls := rapid.SampledFrom([]string{"", "", "", "clear-hop", "clear-hop", "clear-target", "clear-root", "clear-sibling", "mixed", "mixed"}).Draw(t, "between")
	if cls == "" {
		return
	}
	randomOp := func() BetweenOp {
		k := rapid.SampledFrom([]string{"clear", "clear", "task", "task", "list", "mark-alive", "mark-sibling-dead"}).Draw(t, "op")
		return BetweenOp{Kind: k, Who: rapid.IntRange(0, maxWho).Draw(t, "op-who")}
	}
	switch cls {
	case "clear-hop":
		hi := depth - 1
		if hi < 1 {
			hi = 1
		}
		c.Between = append(c.Between, BetweenOp{Kind: "clear", Who: rapid.IntRange(1, hi).Draw(t, "hop")})
	case "clear-target":
		c.Between = append(c.Between, BetweenOp{Kind: "clear", Who: depth})
	case "clear-root":
		c.Between = append(c.Between, BetweenOp{Kind: "clear", Who: 0})
	case "clear-sibling":
		c.Between = append(c.Between, BetweenOp{Kind: "clear", Who: maxWho})
	default:
		c.Between = append(c.Between, randomOp())
	}
	for n := rapid.IntRange(0, 2).Draw(t, "more"); n > 0; n-- {
		c.Between = append(c.Between, randomOp())
	}
}

// tree: agents 0..depth are the chain, depth+1 (if present) the sibling under chain[depth-1]
type tnode struct {
	s      sess
	parent int
}

func buildTree(c Case, chain []sess, side sess) []tnode {
	depth := len(chain) - 1
	var ns []tnode
	for i, s := range chain {
		ns = append(ns, tnode{s: s, parent: i - 1})
	}
	if c.Side && depth >= 1 {
		ns = append(ns, tnode{s: side, parent: depth - 1})
	}
	return ns
}

func roleOf(idx, depth int) string {
	switch {
	case idx == 0:
		return "root"
	case idx == depth:
		return "target"
	case idx == depth+1:
		return "sibling"
	}
	return "intermediate-hop"
}

func resolveWho(who, n int) int {
	if who < 0 {
		who = -who
	}
	return who % n
}

// teamserverCmd sends what the client sends for `task clear` / `task list`
// (Session/Input, CommandID "Teamserver", Command "task::clear").
func teamserverCmd(w *agx.World, s sess, line, command string, n int) {
	w.Input(opUser(), map[string]interface{}{"DemonID": s.NameID(), "CommandID": "Teamserver", "TaskID": fmt.Sprintf("%08x", 0x7e000000+n), "CommandLine": line, "Command": command})
}

func markAs(w *agx.World, s sess, what string) {
	pk := packager.Package{}
	pk.Head.Event = packager.Type.Session.Type
	pk.Head.User = opUser()
	pk.Head.Time = "01/01/2026 00:00:00"
	pk.Body.SubEvent = packager.Type.Session.MarkAsDead
	pk.Body.Info = map[string]interface{}{"AgentID": s.NameID(), "Marked": what}
	w.TS.EventAppend(pk)
	w.TS.DispatchEvent(pk)
}

type expTask struct {
	req      uint32
	cmd      uint32
	a, b     uint32 // sleep
	path     string // fs cd
	optional bool
	why      string // why optional
	n        int    // position in the order of issue
}

// unwrapTree follows one task of the first hop's reply down the tree: every hop decrypts its layer
// with its own key (already done for `cur` by the caller / the previous hop), finds the id of one
// of ITS children and a pipe frame for it.  Returns the agent the task ends at.
func unwrapTree(ns []tnode, cur demonref.Task, ti int, tag string) (int, demonref.Task, *core.Violation) {
	at := 0
	for hop := 0; cur.Cmd == demonref.CmdPivot; hop++ {
		if hop > len(ns) {
			return 0, cur, core.V("down|layer-depth|"+tag, "task %d is wrapped more often than the tree is deep", ti)
		}
		d := &demonref.Dec{B: cur.Body}
		sub := d.Int32()
		did := d.Int32()
		frame := d.Bytes()
		if d.Err || sub != demonref.PivotSmbCmd {
			return 0, cur, core.V(fmt.Sprintf("down|layer-malformed|hop%d|%s", hop, tag), "hop %d: decrypting the layer with hop key gives sub-command %d (want 12), err=%v", hop, sub, d.Err)
		}
		next := -1
		for i, n := range ns {
			if n.parent == at && n.s.ID == did {
				next = i
			}
		}
		if next < 0 {
			return 0, cur, core.V(fmt.Sprintf("down|next-hop-id|hop%d|%s", hop, tag), "hop %d (%08x): layer names demon %08x, which is not one of its children", hop, ns[at].s.ID, did)
		}
		nx := ns[next].s
		if len(frame) < 8 {
			return 0, cur, core.V(fmt.Sprintf("down|frame-short|hop%d|%s", hop, tag), "hop %d: pipe frame has %d bytes", hop, len(frame))
		}
		fid := binary.LittleEndian.Uint32(frame[0:4])
		fsz := binary.LittleEndian.Uint32(frame[4:8])
		if fid != nx.ID {
			return 0, cur, core.V(fmt.Sprintf("down|frame-id|hop%d|%s", hop, tag), "hop %d: pipe frame carries id %08x, the reading demon is %08x (SmbRecv would drop the connection)", hop, fid, nx.ID)
		}
		if int(fsz) != len(frame)-8 {
			return 0, cur, core.V(fmt.Sprintf("down|frame-size|hop%d|%s", hop, tag), "hop %d: pipe frame says %d payload bytes, carries %d", hop, fsz, len(frame)-8)
		}
		inner, ok := demonref.ReadTasks(frame[8:], nx.Key, nx.IV, 0, "")
		if !ok || len(inner) != 1 {
			return 0, cur, core.V(fmt.Sprintf("down|inner-framing|hop%d|%s", hop, tag), "hop %d: payload for %08x is not exactly one task under its key (%d tasks, clean=%v)", hop, nx.ID, len(inner), ok)
		}
		cur = inner[0]
		at = next
	}
	return at, cur, nil
}

// downwardBetween replaces the plain 'issue two tasks, poll' step when the case carries extra
// tasks and/or operator commands between issue and poll.
func downwardBetween(c Case, w *agx.World, chain []sess, side sess, tag string) *core.Violation {
	depth := len(chain) - 1
	ns := buildTree(c, chain, side)
	tag += "|between"
	exp := make([][]*expTask, len(ns))
	var hist []string
	counter := 0
	issue := func(idx int, e *expTask) {
		counter++
		e.n = counter
		s := ns[idx].s
		if e.cmd == 11 {
			w.Input(opUser(), map[string]interface{}{"DemonID": s.NameID(), "CommandID": "11", "TaskID": fmt.Sprintf("%08x", e.req), "CommandLine": "sleep", "Arguments": fmt.Sprintf("%d;%d", e.a, e.b)})
		} else {
			w.Input(opUser(), map[string]interface{}{"DemonID": s.NameID(), "CommandID": "15", "TaskID": fmt.Sprintf("%08x", e.req), "CommandLine": "cd", "SubCommand": "cd", "Arguments": e.path})
		}
		exp[idx] = append(exp[idx], e)
		hist = append(hist, fmt.Sprintf("task#%d(%08x) for %s %08x", e.n, e.req, roleOf(idx, depth), s.ID))
	}
	extraN := 0
	extra := func(who int) {
		extraN++
		idx := resolveWho(who, len(ns))
		req := c.TaskID ^ (0x40000000 | uint32(extraN)<<8)
		if req == 0 {
			req = 0x5a5a5a5a
		}
		e := &expTask{req: req}
		if extraN%2 == 1 {
			e.cmd, e.a, e.b = 11, (c.Delay^uint32(extraN*0x101))&0x7fffffff, (c.Jitter+uint32(extraN))%101
		} else {
			e.cmd, e.path = 15, fmt.Sprintf("%s\\x%d", c.Path, extraN)
		}
		issue(idx, e)
	}
	for pos := 0; pos <= 2; pos++ {
		for _, x := range c.Extra {
			if p := x.Pos; p == pos || (pos == 2 && (p < 0 || p > 2)) {
				extra(x.Who)
			}
		}
		switch pos {
		case 0:
			issue(depth, &expTask{req: c.TaskID, cmd: 11, a: c.Delay, b: c.Jitter})
		case 1:
			issue(depth, &expTask{req: c.TaskID ^ 0x01010101, cmd: 15, path: c.Path})
		}
	}

	// ---- operator commands between issue and poll
	cleared := map[string]bool{}
	dead := map[int]bool{}
	for i, op := range c.Between {
		idx := resolveWho(op.Who, len(ns))
		s := ns[idx].s
		role := roleOf(idx, depth)
		switch op.Kind {
		case "clear":
			teamserverCmd(w, s, "task clear", "task::clear", i)
			hist = append(hist, fmt.Sprintf("`task clear` on %s %08x", role, s.ID))
			cleared[role] = true
			for j := range exp {
				// the named agent's own queue: for the first hop that is where everything waits
				if j == idx || idx == 0 {
					for _, e := range exp[j] {
						if !e.optional {
							e.optional, e.why = true, "queue of "+role+" cleared"
						}
					}
				}
			}
		case "list":
			teamserverCmd(w, s, "task list", "task::list", i)
			hist = append(hist, fmt.Sprintf("`task list` on %s %08x", role, s.ID))
		case "task":
			extra(op.Who)
			if dead[idx] {
				e := exp[idx][len(exp[idx])-1]
				e.optional, e.why = true, "agent marked dead"
			}
		case "mark-alive":
			if dead[idx] {
				break // re-marking a dead pivot agent alive does not restore its link: not part of this check
			}
			markAs(w, s, "Alive")
			hist = append(hist, fmt.Sprintf("mark %s %08x alive", role, s.ID))
		case "mark-sibling-dead":
			if !c.Side || depth < 1 {
				break
			}
			sidx := depth + 1
			markAs(w, ns[sidx].s, "Dead")
			hist = append(hist, fmt.Sprintf("mark sibling %08x dead", ns[sidx].s.ID))
			dead[sidx] = true
			for _, e := range exp[sidx] {
				if !e.optional {
					e.optional, e.why = true, "agent marked dead"
				}
			}
		}
	}
	var cl []string
	for r := range cleared {
		cl = append(cl, r)
	}
	sort.Strings(cl)
	clearedTag := "none"
	if len(cl) > 0 {
		clearedTag = strings.Join(cl, "+")
	}
	history := strings.Join(hist, "; ")

	// ---- the first hop polls
	code, resp := w.Post(demonref.Batch(chain[0].ID, 0, nil, chain[0].Key, chain[0].IV))
	if code != 200 {
		return core.V("down|checkin-status", "first hop check-in answered %d", code)
	}
	top, ok := demonref.ReadTasks(resp, chain[0].Key, chain[0].IV, 0, "")
	if !ok {
		return core.V("down|framing|hop0|"+tag, "first hop reply is not a clean task sequence")
	}
	if len(top) == 1 && top[0].Cmd == demonref.CmdNoJob {
		top = nil
	}
	got := make([][]demonref.Task, len(ns))
	for ti, t := range top {
		at, inner, v := unwrapTree(ns, t, ti, tag)
		if v != nil {
			v.Msg += " [history: " + history + "]"
			return v
		}
		got[at] = append(got[at], inner)
	}
	for idx := range ns {
		role := roleOf(idx, depth)
		ptr := 0
		lost := func(e *expTask) *core.Violation {
			return core.V(fmt.Sprintf("down|between|pending-task-lost|of=%s|cleared=%s|%s", role, clearedTag, tag),
				"task#%d (req %08x) issued for %s %08x is not in the first hop's reply (or not in the order of issue) although the operator did not clear that agent's queue. history: %s; then %08x polled and got %d task(s)",
				e.n, e.req, role, ns[idx].s.ID, history, chain[0].ID, len(top))
		}
		for _, g := range got[idx] {
			j := -1
			for k := ptr; k < len(exp[idx]); k++ {
				if exp[idx][k].req == g.ReqID {
					j = k
					break
				}
			}
			if j < 0 {
				return core.V(fmt.Sprintf("down|between|unissued-repeated-or-reordered-task|at=%s|%s", role, tag),
					"%s %08x is handed cmd %d req %08x, which was not issued for it, was handed over already, or comes before an earlier task of its own. history: %s", role, ns[idx].s.ID, g.Cmd, g.ReqID, history)
			}
			for k := ptr; k < j; k++ {
				if !exp[idx][k].optional {
					return lost(exp[idx][k])
				}
			}
			e := exp[idx][j]
			ptr = j + 1
			if g.Cmd != e.cmd {
				return core.V(fmt.Sprintf("down|between|task-header|at=%s|%s", role, tag), "task#%d for %s %08x arrives as cmd %d, issued cmd %d. history: %s", e.n, role, ns[idx].s.ID, g.Cmd, e.cmd, history)
			}
			d := &demonref.Dec{B: g.Body}
			if e.cmd == 11 {
				if a, b := d.Int32(), d.Int32(); a != e.a || b != e.b || d.Err {
					return core.V(fmt.Sprintf("down|between|task-args|at=%s|%s", role, tag), "sleep task#%d under the key of %s %08x reads %d;%d, operator sent %d;%d. history: %s", e.n, role, ns[idx].s.ID, a, b, e.a, e.b, history)
				}
			} else {
				if sub, p := d.Int32(), demonref.WCString(d.Bytes()); sub != 4 || p != e.path || d.Err {
					return core.V(fmt.Sprintf("down|between|task-args|at=%s|%s", role, tag), "fs task#%d under the key of %s %08x reads sub %d path %q, operator sent cd %q. history: %s", e.n, role, ns[idx].s.ID, sub, p, e.path, history)
				}
			}
		}
		for k := ptr; k < len(exp[idx]); k++ {
			if !exp[idx][k].optional {
				return lost(exp[idx][k])
			}
		}
	}
	return nil
}

func betweenLabels(c Case) ([]string, string) {
	if len(c.Extra) == 0 && len(c.Between) == 0 {
		return nil, "none"
	}
	depth := len(c.IDs) - 1
	n := depth + 1
	if c.Side && depth >= 1 {
		n++
	}
	set := map[string]bool{}
	roles := map[string]bool{"target": true}
	for _, x := range c.Extra {
		r := roleOf(resolveWho(x.Who, n), depth)
		set["issue:task-for-"+r] = true
		roles[r] = true
	}
	if len(roles) > 1 {
		set["issue:tasks-for-several-agents"] = true
	}
	fp := "issue-only"
	rootCleared := false
	for i, op := range c.Between {
		idx := resolveWho(op.Who, n)
		r := roleOf(idx, depth)
		k := ""
		switch op.Kind {
		case "clear":
			k = "between:task-clear-on-" + r
			if r == "intermediate-hop" && !rootCleared {
				set["between:task-clear-on-intermediate-hop-with-descendant-task-pending"] = true
				if idx == 1 {
					set["between:task-clear-on-hop-directly-below-first-hop-with-descendant-task-pending"] = true
				}
			}
			if idx == 0 {
				rootCleared = true
			}
		case "list":
			k = "between:task-list"
		case "task":
			k = "between:further-task-for-" + r
		case "mark-alive":
			k = "between:mark-alive"
		case "mark-sibling-dead":
			if c.Side && depth >= 1 {
				k = "between:mark-sibling-dead"
			}
		}
		if k != "" {
			set[k] = true
			if i == 0 {
				fp = "other"
				if op.Kind == "clear" {
					fp = "clear"
				}
			}
		}
	}
	if len(c.Between) > 0 {
		set["between:any"] = true
	}
	var out []string
	for k := range set {
		out = append(out, k)
	}
	sort.Strings(out)
	return out, fp
}

package c08

// CONFIGURATION / ENVIRONMENT dimension: the fixture is built from a generated configuration.
// About half of the cases keep the fixture's defaults (Cfg == nil: exactly the world of before);
// the others draw, in combinations, the options the teamserver reads on the paths this property
// is about (registration of relayed agents, task wrapping, relayed callbacks):
//
//   WebHook block   ts.WebHooks is set up the way (*Teamserver).Start() does it (teamserver.go:
//                   NewWebHook(), then SetDiscord from Profile.Config.WebHook.Discord if a Url is
//                   given): object only / Discord Url = an httptest server owned by the case that
//                   answers 200, 204, 500, answers late, is closed already / a Url that cannot be
//                   parsed; with or without User and AvatarUrl.  (AgentAdd notifies it of every
//                   new agent - synchronously, on the registration path.)
//   Service block   a live service client (internal/tpx) has registered a third-party agent type
//                   and announced one session of it: third-party state next to the Demon sessions
//   Demon.TrustXForwardedFor   the listener takes the external address from X-Forwarded-For (the
//                   harness's requests carry none: every directly connected agent has an empty one)
//   Operators       three operators in the profile, tasks issued under their names in turn; plus an
//                   authenticated operator on a real websocket (receives every broadcast)
//   agent metadata  kill date (past / future) and working hours in the registration metadata of
//                   every agent
//   time.Local      set for the case (restored afterwards)
//
// None of these may change routing: the oracle is untouched.

import (
	"io"
	"net/http"
	"net/http/httptest"
	"os"
	"sync/atomic"
	"time"

	"Havoc/pkg/profile"
	"Havoc/pkg/webhook"

	"pgregory.net/rapid"

	"verifharness/internal/agx"
	"verifharness/internal/demonref"
	"verifharness/internal/tpx"
	"verifharness/internal/tsx"
)

type Cfg struct {
	WebHook   string `json:"webhook,omitempty"` // "" (no WebHooks object: the fixture of before) | object-only | discord-200 | discord-204 | discord-500 | discord-slow | discord-closed | discord-bad-url
	Identity  bool   `json:"identity,omitempty"`
	Service   bool   `json:"service,omitempty"`
	TPID      uint32 `json:"tp_id,omitempty"`
	TPMagic   uint32 `json:"tp_magic,omitempty"`
	TrustXFF  bool   `json:"trust_xff,omitempty"`
	Operators string `json:"operators,omitempty"` // "" | three-names | three-names+live-operator
	Meta      string `json:"meta,omitempty"`      // "" | killdate-past | killdate-future | working-hours | killdate-future+working-hours
	TZ        string `json:"tz,omitempty"`        // "" | UTC | +05:30 | -08:00 | +14:00 | -12:00
}

var tzOffsets = map[string]int{"UTC": 0, "+05:30": 5*3600 + 1800, "-08:00": -8 * 3600, "+14:00": 14 * 3600, "-12:00": -12 * 3600}

func genCfg(t *rapid.T, c *Case) {
	if !rapid.Bool().Draw(t, "cfg?") || os.Getenv("VERIF_C08_NOCFG") != "" {
		return
	}
	g := &Cfg{}
	// (rapid prefers the front of a sample list: defaults are not first)
	g.WebHook = rapid.SampledFrom([]string{"discord-200", "", "discord-500", "object-only", "discord-closed", "discord-204", "discord-slow", "discord-bad-url"}).Draw(t, "webhook")
	if g.WebHook != "" && g.WebHook != "object-only" {
		g.Identity = rapid.Bool().Draw(t, "identity")
	}
	if rapid.IntRange(0, 4).Draw(t, "service?") == 2 {
		g.Service = true
		used := map[uint32]bool{0: true, c.SideID: true, c.NewRoot: true}
		for _, id := range c.IDs {
			used[id] = true
		}
		for {
			g.TPID = rapid.Uint32Range(1, 0xffffffff).Draw(t, "tp-id")
			if !used[g.TPID] {
				break
			}
		}
		for {
			g.TPMagic = rapid.Uint32Range(1, 0xffffffff).Draw(t, "tp-magic")
			if g.TPMagic != demonref.Magic {
				break
			}
		}
	}
	g.TrustXFF = rapid.Bool().Draw(t, "xff")
	g.Operators = rapid.SampledFrom([]string{"three-names", "", "three-names+live-operator", ""}).Draw(t, "operators")
	g.Meta = rapid.SampledFrom([]string{"killdate-future", "", "working-hours", "killdate-past", "", "killdate-future+working-hours"}).Draw(t, "meta")
	g.TZ = rapid.SampledFrom([]string{"+05:30", "", "-08:00", "+14:00", "", "UTC", "-12:00"}).Draw(t, "tz")
	c.Cfg = g
}

// ---- operators: the names tasks are issued under, in turn (one case at a time runs in a process)
var (
	opNames = []string{"op"}
	opTurn  int
)

func opUser() string {
	u := opNames[opTurn%len(opNames)]
	opTurn++
	return u
}

// metaFor: registration metadata of agent id under the case's configuration
func metaFor(c Case, id uint32) demonref.MetaData {
	m := agx.DefaultMeta(id)
	if c.Cfg == nil {
		return m
	}
	const hours = 1<<22 | 9<<17 | 0<<11 | 17<<6 | 30 // enabled, 09:00 - 17:30 (Demon config encoding)
	switch c.Cfg.Meta {
	case "killdate-past":
		m.KillDate = 1000000000
	case "killdate-future":
		m.KillDate = 4000000000
	case "working-hours":
		m.WorkingHours = hours
	case "killdate-future+working-hours":
		m.KillDate, m.WorkingHours = 4000000000, hours
	}
	return m
}

type liveCfg struct {
	tap *tpx.Tap
}

// drain empties what the live operator received so far (its buffer is bounded)
func (l *liveCfg) drain() {
	if l != nil && l.tap != nil {
		if _, err := l.tap.Sync(); err != nil {
			panic("infrastructure: operator tap: " + err.Error())
		}
	}
}

// newConfiguredWorld builds the fixture for the case's configuration; done() releases everything
// and restores the environment.
func newConfiguredWorld(c Case) (*agx.World, *liveCfg, func()) {
	opNames, opTurn = []string{"op"}, 0
	g := c.Cfg
	if g == nil {
		w, err := agx.NewWorld(nil)
		if err != nil {
			panic("infrastructure: " + err.Error())
		}
		return w, nil, w.Close
	}
	var cleanup []func()
	done := func() {
		for i := len(cleanup) - 1; i >= 0; i-- {
			cleanup[i]()
		}
	}
	// ---- environment
	if off, ok := tzOffsets[g.TZ]; ok {
		old := time.Local
		time.Local = time.FixedZone("case"+g.TZ, off)
		cleanup = append(cleanup, func() { time.Local = old })
	}
	// ---- world
	var w *agx.World
	var sc *tpx.Client
	if g.Service {
		tw, err := tpx.NewWorld()
		if err != nil {
			panic("infrastructure: " + err.Error())
		}
		cleanup = append(cleanup, tw.Close)
		w = tw.World
		if sc, err = tw.Connect(); err != nil {
			done()
			panic("infrastructure: service script: " + err.Error())
		}
		cleanup = append(cleanup, func() { sc.Leave(false) })
	} else {
		var err error
		if w, err = agx.NewWorld(tsx.BasicProfile(map[string]string{"op": "pw"}, nil)); err != nil {
			panic("infrastructure: " + err.Error())
		}
		cleanup = append(cleanup, w.Close)
	}
	prof := w.TS.Profile
	// ---- operators
	if g.Operators != "" {
		prof.Config.Operators.Users = append(prof.Config.Operators.Users, profile.UsersBlock{Name: "op2", Password: "pw2"}, profile.UsersBlock{Name: "op3", Password: "pw3"})
		opNames = []string{"op", "op2", "op3"}
	}
	live := &liveCfg{}
	if g.Operators == "three-names+live-operator" && c.Scale == nil {
		tap, err := tpx.NewTap(w.TS)
		if err != nil {
			done()
			panic("infrastructure: operator tap: " + err.Error())
		}
		live.tap = tap
		cleanup = append(cleanup, tap.Close)
		opNames = append(opNames, "tap") // the name the live operator is logged in with
	}
	// ---- Demon.TrustXForwardedFor (teamserver.go: BehindRedir of every HTTP listener)
	if g.TrustXFF {
		prof.Config.Demon.TrustXForwardedFor = true
		w.H.Config.BehindRedir = true
	}
	// ---- WebHook block, applied as Start() applies it
	if g.WebHook != "" {
		url := ""
		var hits int32
		handler := func(code int, wait time.Duration) http.HandlerFunc {
			return func(rw http.ResponseWriter, r *http.Request) {
				io.Copy(io.Discard, r.Body)
				atomic.AddInt32(&hits, 1)
				if wait > 0 {
					time.Sleep(wait)
				}
				rw.WriteHeader(code)
				if code >= 300 {
					rw.Write([]byte(`{"message": "internal error", "code": 0}`))
				}
			}
		}
		serve := func(h http.HandlerFunc) *httptest.Server {
			srv := httptest.NewServer(h)
			cleanup = append(cleanup, func() {
				http.DefaultClient.CloseIdleConnections()
				srv.CloseClientConnections()
				srv.Close()
			})
			return srv
		}
		switch g.WebHook {
		case "discord-200":
			url = serve(handler(200, 0)).URL + "/api/webhooks/1/token"
		case "discord-204":
			url = serve(handler(204, 0)).URL + "/api/webhooks/1/token"
		case "discord-500":
			url = serve(handler(500, 0)).URL + "/api/webhooks/1/token"
		case "discord-slow":
			url = serve(handler(204, 3*time.Millisecond)).URL + "/api/webhooks/1/token"
		case "discord-closed":
			srv := httptest.NewServer(handler(204, 0))
			url = srv.URL + "/api/webhooks/1/token"
			srv.Close()
		case "discord-bad-url":
			url = "://discord.invalid/%zz"
		}
		if url != "" {
			d := &profile.WebHookDiscordConfig{WebHook: url}
			if g.Identity {
				d.UserName, d.AvatarUrl = "Havoc", "https://avatar.invalid/a.png"
			}
			prof.Config.WebHook = &profile.WebHookConfig{Discord: d}
		}
		// teamserver.go Start(): t.WebHooks = webhook.NewWebHook(); if a Discord block with a Url is given, SetDiscord
		w.TS.WebHooks = webhook.NewWebHook()
		if wh := prof.Config.WebHook; wh != nil && wh.Discord != nil && len(wh.Discord.WebHook) > 0 {
			w.TS.WebHooks.SetDiscord(wh.Discord.AvatarUrl, wh.Discord.UserName, wh.Discord.WebHook)
		}
	}
	// ---- Service block: a third-party type and one session of it
	if sc != nil {
		sc.RegisterType("verif-tp", g.TPMagic)
		sc.RegisterSession(g.TPMagic, g.TPID, map[string]any{"Hostname": "TP-01", "Username": "svc", "Domain": "tp.local", "InternalIP": "10.9.9.9",
			"Process Path": "/usr/bin/tp", "Process Name": "tp", "Process Arch": "x64", "Process ID": "77", "Process Parent ID": "1", "Process Elevated": "0",
			"OS Version": "6.1.0.0.1", "OS Build": "1", "OS Arch": "x64", "SleepDelay": "5"})
		if err := sc.Barrier(); err != nil {
			done()
			panic("infrastructure: service script: " + err.Error())
		}
	}
	return w, live, done
}

func cfgLabels(c Case) []string {
	g := c.Cfg
	if g == nil {
		return []string{"cfg:all-defaults"}
	}
	var out []string
	if g.WebHook != "" {
		out = append(out, "cfg:webhook="+g.WebHook)
		if g.Identity {
			out = append(out, "cfg:webhook-user+avatar=set")
		}
	}
	if g.Service {
		out = append(out, "cfg:service=third-party-type+session")
	}
	if g.TrustXFF {
		out = append(out, "cfg:TrustXForwardedFor=on")
	}
	if g.Operators != "" {
		o := g.Operators
		if o == "three-names+live-operator" && c.Scale != nil {
			o = "three-names"
		}
		out = append(out, "cfg:operators="+o)
	}
	if g.Meta != "" {
		out = append(out, "cfg:agent-meta="+g.Meta)
	}
	if _, ok := tzOffsets[g.TZ]; ok {
		out = append(out, "env:time.Local="+g.TZ)
	}
	if len(out) == 0 {
		return []string{"cfg:all-defaults"}
	}
	return out
}

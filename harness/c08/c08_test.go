package c08

// C08: tasks and callbacks for pivot agents are routed to the right session.
//
// Chains are built through real SMB_CONNECT callbacks.  Downward: an operator task for
// the last agent of a chain is picked up at the first hop's check-in and unwrapped hop
// by hop the way the Demon does it (Command.c CommandPivot SMB_COMMAND writes the byte
// string to the child's pipe; TransportSmb.c SmbRecv reads [demon id][size][payload]
// and refuses a frame that does not carry its own id).  Upward: a callback of the last
// agent is wrapped once per ancestor (PivotPush) and must be attributed to, decrypted
// with the key of, and gated by the outstanding tasks of the agent in the inner header.

import (
	"encoding/base64"
	"encoding/binary"
	"encoding/json"
	"fmt"
	"os"
	"strings"
	"testing"

	"Havoc/pkg/agent"
	"Havoc/pkg/packager"

	"pgregory.net/rapid"

	"verifharness/internal/agx"
	"verifharness/internal/core"
	"verifharness/internal/demonref"
	"verifharness/internal/tsx"
)

func TestMain(m *testing.M) {
	tsx.Quiet()
	os.Exit(m.Run())
}

type Case struct {
	IDs      []uint32 `json:"ids"`       // chain root .. target (len = depth+1), pairwise distinct
	Seeds    []byte   `json:"seeds"`     // key seed per agent
	IVEdge   []int    `json:"iv_edge,omitempty"` // per agent: class of demonref.IVEdgeNames (counter block about to carry); missing = 0
	Side     bool     `json:"side"`      // a sibling of the target hangs off the target's parent
	SideFirst bool    `json:"side_first"` // the sibling connected before the target (it precedes it in the parent's link list)
	SideID   uint32   `json:"side_id"`
	Delay    uint32   `json:"delay"`     // sleep task arguments
	Jitter   uint32   `json:"jitter"`
	Path     string   `json:"path"`      // fs cd task argument
	TaskID   uint32   `json:"task_id"`
	Up       string   `json:"up"`        // upward scenario: ok | not-outstanding | parent-outstanding-only | parent-key | to-side
	UpMarker string   `json:"up_marker"`
	// after the first round: chain agent number Relink (1..depth; 0 = none) reconnects under a new,
	// directly connected agent NewRoot, and another task is issued for the last agent
	Relink  int    `json:"relink,omitempty"`
	NewRoot uint32 `json:"new_root,omitempty"`
	// after the reconnect the OLD parent still hands in a frame it had read from the moved agent's
	// pipe before (it sleeps longer than the new parent): none | getjob | callback
	StaleFrame string `json:"stale_frame,omitempty"`
	// Rekey: before the last task one hop between the first hop and the target answers a CHECKIN task
	// with metadata carrying a new session key (demons.go COMMAND_CHECKIN adopts it): 0 = nobody,
	// otherwise 1-based index into the hops strictly between first hop and target (mod their number)
	Rekey int `json:"rekey,omitempty"`
	// 'operator commands between issue and poll' (between_test.go): Extra = further tasks queued for
	// other agents of the tree together with the target's two; Between = operator commands run after
	// the tasks are queued and before the first hop polls
	Extra   []ExtraTask `json:"extra,omitempty"`
	Between []BetweenOp `json:"between,omitempty"`
	// SCALE dimension (scale_test.go): a large count of tasks for the target / relayed callbacks /
	// children of one hop, run between the setup of the chain and the ordinary steps
	Scale *Scale `json:"scale,omitempty"`
	// CONFIGURATION / ENVIRONMENT dimension (cfg_test.go): nil = the fixture's defaults
	Cfg *Cfg `json:"cfg,omitempty"`
	// LARGE-PAYLOAD dimension (large_test.go): one file upload / output callback of 64 KiB .. several MiB
	// for one agent of the tree, optionally with one agent's counter carrying inside the payload
	Large *Large `json:"large,omitempty"`
}

func keyFrom(seed byte) ([]byte, []byte) {
	k := make([]byte, 32)
	iv := make([]byte, 16)
	for i := range k {
		k[i] = seed*31 + byte(i*7) | 1
	}
	for i := range iv {
		iv[i] = seed ^ byte(i*13+5)
	}
	return k, iv
}

func gen(t *rapid.T) Case {
	var c Case
	depth := rapid.IntRange(1, 5).Draw(t, "depth")
	seen := map[uint32]bool{}
	idg := rapid.OneOf(rapid.SampledFrom([]uint32{1, 2, 0x7fffffff, 0x80000000, 0xffffffff, 0xfffffffe, 0x80000001}), rapid.Uint32Range(1, 0xffffffff))
	for len(c.IDs) < depth+1 {
		id := idg.Draw(t, "id")
		if !seen[id] {
			seen[id] = true
			c.IDs = append(c.IDs, id)
			c.Seeds = append(c.Seeds, byte(len(c.IDs)*17)+rapid.Byte().Draw(t, "seed")%16)
			// one agent in four has an IV whose counter block is about to carry (layers are longer than one block)
			e := 0
			if rapid.IntRange(0, 3).Draw(t, "ivedge?") == 0 {
				e = rapid.IntRange(1, len(demonref.IVEdgeNames)-1).Draw(t, "ivedge")
			}
			c.IVEdge = append(c.IVEdge, e)
		}
	}
	c.Side = rapid.Bool().Draw(t, "side")
	c.SideFirst = rapid.Bool().Draw(t, "sidefirst")
	for {
		c.SideID = idg.Draw(t, "sideid")
		if !seen[c.SideID] {
			break
		}
	}
	c.Delay = rapid.Uint32Range(0, 0x7fffffff).Draw(t, "delay")
	c.Jitter = rapid.Uint32Range(0, 100).Draw(t, "jitter")
	c.Path = "C:\\P" + rapid.StringMatching(`[A-Za-z0-9]{1,12}`).Draw(t, "path")
	c.TaskID = rapid.Uint32Range(1, 0xffffffff).Draw(t, "task")
	c.Up = rapid.SampledFrom([]string{"ok", "ok", "not-outstanding", "parent-outstanding-only", "parent-key", "to-side", "refused-then-ok", "ok-then-refused", "refused-refused-ok"}).Draw(t, "up")
	c.UpMarker = "UPMARK" + rapid.StringMatching(`[a-z]{6}`).Draw(t, "upm")
	if rapid.IntRange(0, 2).Draw(t, "relink?") > 0 {
		c.Relink = rapid.IntRange(1, depth).Draw(t, "relink")
		c.StaleFrame = rapid.SampledFrom([]string{"", "", "getjob", "callback"}).Draw(t, "stale")
		c.Rekey = rapid.SampledFrom([]int{0, 0, 1, 2, 3}).Draw(t, "rekey")
		for {
			c.NewRoot = idg.Draw(t, "newroot")
			if !seen[c.NewRoot] && c.NewRoot != c.SideID {
				break
			}
		}
	}
	genBetween(t, &c)
	genScale(t, &c)
	genCfg(t, &c)
	genLarge(t, &c)
	return c
}

type sess = agx.Sess

// wrapUp wraps a package of chain[i] for delivery by its ancestors: each ancestor sends a
// COMMAND_PIVOT callback [SMB_COMMAND][bytes: child package] (Pivot.c PivotPush) inside
// its own batch.  Returns the package the root posts.
func wrapUp(chain []sess, i int, pkg []byte) []byte {
	for j := i - 1; j >= 0; j-- {
		body := (&demonref.Enc{}).Int32(demonref.PivotSmbCmd).Bytes(pkg).B
		pkg = demonref.Batch(chain[j].ID, 0, []demonref.Sub{{Cmd: demonref.CmdPivot, ReqID: 0, Body: body}}, chain[j].Key, chain[j].IV)
	}
	return pkg
}

func consoleTexts(evs []packager.Package) map[string][]string {
	out := map[string][]string{}
	for _, ev := range evs {
		if ev.Head.Event != packager.Type.Session.Type || ev.Body.SubEvent != packager.Type.Session.Output {
			continue
		}
		id, _ := ev.Body.Info["DemonID"].(string)
		raw, _ := base64.StdEncoding.DecodeString(fmt.Sprint(ev.Body.Info["Output"]))
		var m map[string]string
		if json.Unmarshal(raw, &m) != nil {
			continue
		}
		out[id] = append(out[id], m["Message"]+"\n"+m["Output"])
	}
	return out
}

// unwrap reads the tasks of the first hop's reply the way the hops do: each hop decrypts its
// layer with its own key, finds the next hop's id and a pipe frame, and passes the frame on.
func unwrap(chain []sess, top []demonref.Task, tag string) ([]demonref.Task, *core.Violation) {
	depth := len(chain) - 1
	var delivered []demonref.Task
	if depth == 0 {
		delivered = top
	}
	for ti, t := range top {
		cur := t
		for hop := 0; hop < depth; hop++ {
			next := chain[hop+1]
			if cur.Cmd != demonref.CmdPivot {
				return nil, core.V(fmt.Sprintf("down|not-a-pivot-task|hop%d|%s", hop, tag), "task %d at hop %d is command %d, expected COMMAND_PIVOT", ti, hop, cur.Cmd)
			}
			d := &demonref.Dec{B: cur.Body} // Command.c:2559-2563 DemonId = GetInt32, Data = GetBytes (after sub-command)
			sub := d.Int32()
			did := d.Int32()
			frame := d.Bytes()
			if d.Err || sub != demonref.PivotSmbCmd {
				return nil, core.V(fmt.Sprintf("down|layer-malformed|hop%d|%s", hop, tag), "hop %d: decrypting the layer with hop key gives sub-command %d (want 12), err=%v", hop, sub, d.Err)
			}
			if did != next.ID {
				return nil, core.V(fmt.Sprintf("down|next-hop-id|hop%d|%s", hop, tag), "hop %d: layer names demon %08x, next hop is %08x", hop, did, next.ID)
			}
			// TransportSmb.c SmbRecv: [DemonId][PackageSize][payload], id must be the reader's own
			if len(frame) < 8 {
				return nil, core.V(fmt.Sprintf("down|frame-short|hop%d|%s", hop, tag), "hop %d: pipe frame has %d bytes", hop, len(frame))
			}
			fid := binary.LittleEndian.Uint32(frame[0:4])
			fsz := binary.LittleEndian.Uint32(frame[4:8])
			if fid != next.ID {
				return nil, core.V(fmt.Sprintf("down|frame-id|hop%d|%s", hop, tag), "hop %d: pipe frame carries id %08x, the reading demon is %08x (SmbRecv would drop the connection)", hop, fid, next.ID)
			}
			if int(fsz) != len(frame)-8 {
				return nil, core.V(fmt.Sprintf("down|frame-size|hop%d|%s", hop, tag), "hop %d: pipe frame says %d payload bytes, carries %d", hop, fsz, len(frame)-8)
			}
			inner, ok := demonref.ReadTasks(frame[8:], next.Key, next.IV, 0, "")
			if !ok || len(inner) != 1 {
				return nil, core.V(fmt.Sprintf("down|inner-framing|hop%d|%s", hop, tag), "hop %d: payload for %08x is not exactly one task under its key (%d tasks, clean=%v)", hop, next.ID, len(inner), ok)
			}
			cur = inner[0]
		}
		if depth > 0 {
			delivered = append(delivered, cur)
		}
	}
	return delivered, nil
}

func check(c Case) *core.Violation {
	w, live, done := newConfiguredWorld(c)
	defer done()

	var chain []sess
	for i, id := range c.IDs {
		k, iv := keyFrom(c.Seeds[i])
		if i < len(c.IVEdge) {
			iv = demonref.ApplyIVEdge(iv, c.IVEdge[i], c.Seeds[i])
		}
		iv = largeIV(c, i, iv)
		chain = append(chain, sess{ID: id, Key: k, IV: iv, Meta: metaFor(c, id)})
	}
	depth := len(chain) - 1
	tag := fmt.Sprintf("depth=%d", depth)
	// root registers directly
	if code, _ := w.Register(chain[0]); code != 200 {
		return core.V("setup|register-refused", "root registration refused: %d", code)
	}
	// every further agent registers through its parent's SMB_CONNECT callback, relayed by the ancestors
	connect := func(parentIdx int, child sess) *core.Violation {
		init := child.Meta.InitPackage(child.ID, child.Key, child.IV)
		body := (&demonref.Enc{}).Int32(demonref.PivotSmbCon).Int32(1).Bytes(init).B
		p := chain[parentIdx]
		pkg := demonref.Batch(p.ID, 0, []demonref.Sub{{Cmd: demonref.CmdPivot, ReqID: 0, Body: body}}, p.Key, p.IV)
		code, _ := w.Post(wrapUp(chain, parentIdx, pkg))
		if code != 200 {
			return core.V("setup|smb-connect-status", "SMB_CONNECT of %08x under %08x answered %d", child.ID, p.ID, code)
		}
		a := w.Agent(child.ID)
		if a == nil {
			return core.V("connect|child-not-registered|"+tag, "child %08x connected under %08x (depth %d) was not registered", child.ID, p.ID, parentIdx+1)
		}
		if a.Pivots.Parent == nil || a.Pivots.Parent.NameID != p.NameID() {
			return core.V("connect|wrong-parent|"+tag, "child %08x: parent is %v, connected under %s", child.ID, a.Pivots.Parent, p.NameID())
		}
		return nil
	}
	var side sess
	if c.Side {
		k, iv := keyFrom(0xee)
		side = sess{ID: c.SideID, Key: k, IV: iv, Meta: metaFor(c, c.SideID)}
	}
	for i := 1; i <= depth; i++ {
		if c.Side && c.SideFirst && i == depth {
			if v := connect(depth-1, side); v != nil {
				return v
			}
		}
		if v := connect(i-1, chain[i]); v != nil {
			return v
		}
	}
	if c.Side && !c.SideFirst {
		if v := connect(depth-1, side); v != nil {
			return v
		}
	}
	// drain whatever is queued at the root
	w.Checkin(chain[0], nil)
	live.drain()

	if v := scalePhase(c, w, chain, side, tag); v != nil {
		return v
	}
	if v := largePhase(c, w, chain, side, tag); v != nil {
		return v
	}
	live.drain()

	// ---------------------------------------------------------------- downward
	target := chain[depth]
	reqSleep := c.TaskID
	reqCd := c.TaskID ^ 0x01010101
	if len(c.Extra) > 0 || len(c.Between) > 0 {
		if v := downwardBetween(c, w, chain, side, tag); v != nil {
			return v
		}
		live.drain()
		if v := upward(c, w, chain, side, target, reqCd, tag); v != nil {
			return v
		}
		live.drain()
		return relink(c, w, chain, tag)
	}
	w.Input(opUser(), map[string]interface{}{"DemonID": target.NameID(), "CommandID": "11", "TaskID": fmt.Sprintf("%08x", reqSleep), "CommandLine": "sleep", "Arguments": fmt.Sprintf("%d;%d", c.Delay, c.Jitter)})
	w.Input(opUser(), map[string]interface{}{"DemonID": target.NameID(), "CommandID": "15", "TaskID": fmt.Sprintf("%08x", reqCd), "CommandLine": "cd", "SubCommand": "cd", "Arguments": c.Path})
	code, resp := w.Post(demonref.Batch(chain[0].ID, 0, nil, chain[0].Key, chain[0].IV))
	if code != 200 {
		return core.V("down|checkin-status", "first hop check-in answered %d", code)
	}
	// the two operator tasks travel as two separately wrapped pivot tasks
	top, ok := demonref.ReadTasks(resp, chain[0].Key, chain[0].IV, 0, "")
	if !ok {
		return core.V("down|framing|hop0|"+tag, "first hop reply is not a clean task sequence")
	}
	delivered, v := unwrap(chain, top, tag)
	if v != nil {
		return v
	}
	if len(delivered) != 2 {
		return core.V("down|task-count|"+tag, "%d tasks reached the target, 2 were issued", len(delivered))
	}
	if delivered[0].Cmd != 11 || delivered[0].ReqID != reqSleep {
		return core.V("down|task0-header|"+tag, "first delivered task is cmd %d req %08x, issued sleep req %08x", delivered[0].Cmd, delivered[0].ReqID, reqSleep)
	}
	d := &demonref.Dec{B: delivered[0].Body}
	if a, b := d.Int32(), d.Int32(); a != c.Delay || b != c.Jitter || d.Err {
		return core.V("down|task0-args|"+tag, "sleep task under the target's key reads %d;%d, operator sent %d;%d", a, b, c.Delay, c.Jitter)
	}
	if delivered[1].Cmd != 15 || delivered[1].ReqID != reqCd {
		return core.V("down|task1-header|"+tag, "second delivered task is cmd %d req %08x, issued fs/cd req %08x", delivered[1].Cmd, delivered[1].ReqID, reqCd)
	}
	d = &demonref.Dec{B: delivered[1].Body}
	if sub, p := d.Int32(), demonref.WCString(d.Bytes()); sub != 4 || p != c.Path || d.Err {
		return core.V("down|task1-args|"+tag, "fs task under the target's key reads sub %d path %q, operator sent cd %q", sub, p, c.Path)
	}

	live.drain()
	if v := upward(c, w, chain, side, target, reqCd, tag); v != nil {
		return v
	}
	live.drain()
	return relink(c, w, chain, tag)
}

func upward(c Case, w *agx.World, chain []sess, side, target sess, reqCd uint32, tag string) *core.Violation {
	depth := len(chain) - 1
	// ---------------------------------------------------------------- upward
	// the target answers the fs/cd task: COMMAND_FS / cd / WString(path) (Command.c:952ff)
	from := len(w.TS.EventsList)
	cbBody := (&demonref.Enc{}).Int32(4).WString(c.UpMarker).B
	sender := target
	req := reqCd
	encKey, encIV := target.Key, target.IV
	expectEffect := true
	switch c.Up {
	case "ok":
	case "not-outstanding":
		req = reqCd ^ 0x00f0f0f0 // never issued to anybody
		expectEffect = false
	case "parent-outstanding-only":
		if depth == 0 {
			return nil
		}
		// an id outstanding for the PARENT but not for the child
		pa := w.Agent(chain[depth-1].ID)
		req = 0x0badf00d
		pa.AddJobToQueue(agent.Job{Command: agent.COMMAND_FS, RequestID: req, Data: []interface{}{}})
		expectEffect = false
	case "parent-key":
		if depth == 0 {
			return nil
		}
		encKey, encIV = chain[depth-1].Key, chain[depth-1].IV
		expectEffect = false
	case "to-side":
		if !c.Side {
			return nil
		}
		// the sibling sends a callback with the TARGET's outstanding id: gated by the sibling's own tasks
		sender = side
		encKey, encIV = side.Key, side.IV
		expectEffect = false
	}
	subs := []demonref.Sub{{Cmd: agent.COMMAND_FS, ReqID: req, Body: cbBody}}
	// one frame of the child carrying several callbacks: those with an id that was never issued are
	// refused one by one, the others are acted upon - whatever their position in the frame
	refusedMarker := "REFUSED" + c.UpMarker
	refused := func(i uint32, long bool) demonref.Sub {
		m := refusedMarker
		if long {
			m += strings.Repeat("x", 300)
		}
		return demonref.Sub{Cmd: agent.COMMAND_FS, ReqID: reqCd ^ (0x00f0f0f0 + i), Body: (&demonref.Enc{}).Int32(4).WString(m).B}
	}
	switch c.Up {
	case "refused-then-ok":
		subs = []demonref.Sub{refused(0, false), subs[0]}
	case "ok-then-refused":
		subs = []demonref.Sub{subs[0], refused(0, true)}
	case "refused-refused-ok":
		subs = []demonref.Sub{refused(0, true), refused(1, false), subs[0]}
	}
	pkg := demonref.Batch(sender.ID, 0, subs, encKey, encIV)
	code, _ := w.Post(wrapUp(chain, depth, pkg))
	if code != 200 {
		return core.V("up|status|"+c.Up, "relayed callback answered %d", code)
	}
	texts := consoleTexts(w.EventsSince(from))
	hit := ""
	for id, ts := range texts {
		for _, tx := range ts {
			if strings.Contains(tx, refusedMarker) {
				return core.V("up|accepted|never-issued-id-in-mixed-frame|"+tag, "scenario %s: a callback with a request id that was never issued had an effect (console output on session %s)", c.Up, id)
			}
			if strings.Contains(tx, c.UpMarker) {
				hit = id
			}
		}
	}
	if expectEffect {
		if hit == "" {
			if len(subs) > 1 {
				return core.V("up|dropped|in-mixed-frame|"+c.Up+"|"+tag, "a frame of %08x carried %d callbacks; the one for its outstanding task produced no console output (relayed through %d hop(s))", target.ID, len(subs), depth)
			}
			return core.V("up|dropped|"+tag, "a callback of %08x for its outstanding task, relayed through %d hop(s), produced no console output", target.ID, depth)
		}
		if hit != target.NameID() {
			return core.V("up|misattributed|"+tag, "callback of %08x was attributed to session %s", target.ID, hit)
		}
	} else if hit != "" {
		return core.V("up|accepted|"+c.Up+"|"+tag, "scenario %s: the relayed callback had an effect (console output on session %s)", c.Up, hit)
	}
	return nil
}

// relink: an agent in the middle of the chain reconnects under another directly connected agent
// (the new parent reports SMB_CONNECT with the child's registration package, as on first connect).
// From then on the chain's first hop is the new agent: the next task for the last agent must be
// found there, wrapped for the new chain, and not at the old first hop.
func relink(c Case, w *agx.World, chain []sess, tag string) *core.Violation {
	depth := len(chain) - 1
	if c.Relink <= 0 || c.Relink > depth {
		return nil
	}
	tag = fmt.Sprintf("%s|relinked=%d", tag, c.Relink)
	k, iv := keyFrom(0xdd)
	r2 := sess{ID: c.NewRoot, Key: k, IV: iv, Meta: metaFor(c, c.NewRoot)}
	if code, _ := w.Register(r2); code != 200 {
		return core.V("setup|register-refused", "registration of the new first hop refused: %d", code)
	}
	moved := chain[c.Relink]
	init := moved.Meta.InitPackage(moved.ID, moved.Key, moved.IV)
	body := (&demonref.Enc{}).Int32(demonref.PivotSmbCon).Int32(1).Bytes(init).B
	code, _ := w.Post(demonref.Batch(r2.ID, 0, []demonref.Sub{{Cmd: demonref.CmdPivot, ReqID: 0, Body: body}}, r2.Key, r2.IV))
	if code != 200 {
		return core.V("setup|smb-connect-status", "SMB_CONNECT (reconnect) of %08x under %08x answered %d", moved.ID, r2.ID, code)
	}
	a := w.Agent(moved.ID)
	if a == nil || a.Pivots.Parent == nil || a.Pivots.Parent.NameID != r2.NameID() {
		return core.V("relink|wrong-parent|"+tag, "after reconnecting under %s the parent of %08x is %v", r2.NameID(), moved.ID, a.Pivots.Parent)
	}
	if c.StaleFrame != "" {
		// relayed through the old chain: root .. old parent of the moved agent
		var subs []demonref.Sub
		if c.StaleFrame == "callback" {
			subs = []demonref.Sub{{Cmd: agent.COMMAND_OUTPUT, ReqID: c.TaskID ^ 0x0f0f0f0f, Body: (&demonref.Enc{}).String("late frame").B}}
		}
		stale := demonref.Batch(moved.ID, 0, subs, moved.Key, moved.IV)
		if code, _ := w.Post(wrapUp(chain, c.Relink, stale)); code != 200 {
			return core.V("relink|stale-frame-status|"+tag, "a frame of %08x handed in late by its old parent was answered %d", moved.ID, code)
		}
		a = w.Agent(moved.ID)
		if a == nil || a.Pivots.Parent == nil || a.Pivots.Parent.NameID != r2.NameID() {
			return core.V("relink|stale-frame-moved-the-agent-back|"+tag, "%08x reconnected under %s; a frame its old parent %08x handed in afterwards changed its parent to %v", moved.ID, r2.NameID(), chain[c.Relink-1].ID, a.Pivots.Parent)
		}
	}
	nchain := append([]sess{r2}, chain[c.Relink:]...)
	// whatever the connects left queued is not looked at
	w.Checkin(chain[0], nil)
	w.Checkin(r2, nil)
	if mids := len(nchain) - 2; c.Rekey > 0 && mids > 0 {
		// a hop strictly between the new first hop and the target is asked to check in and answers
		// with a new session key; from then on its layer must be sealed with that key
		hi := 1 + (c.Rekey-1)%mids
		hop := nchain[hi]
		req := c.TaskID ^ 0x03030303
		w.Input(opUser(), map[string]interface{}{"DemonID": hop.NameID(), "CommandID": "100", "TaskID": fmt.Sprintf("%08x", req), "CommandLine": "checkin"})
		w.Checkin(r2, nil) // the first hop picks the (wrapped) check-in task up
		nk, niv := keyFrom(0x77 + byte(hi))
		body := hop.Meta.InitBody(nk, niv, false)
		pkg := demonref.Batch(hop.ID, 0, []demonref.Sub{{Cmd: demonref.CmdCheckin, ReqID: req, Body: body}}, hop.Key, hop.IV)
		if code, _ := w.Post(wrapUp(nchain, hi, pkg)); code != 200 {
			return core.V("rekey|status|"+tag, "the relayed CHECKIN answer of hop %08x was answered %d", hop.ID, code)
		}
		if a := w.Agent(hop.ID); a != nil && string(a.Encryption.AESKey) == string(nk) {
			nchain[hi].Key, nchain[hi].IV = nk, niv
			tag += "|rekeyed-hop"
		}
		// (a tree that ignores the new key keeps the old one: then the old key stays the hop's key)
	}
	target := chain[depth]
	req := c.TaskID ^ 0x02020202
	w.Input(opUser(), map[string]interface{}{"DemonID": target.NameID(), "CommandID": "11", "TaskID": fmt.Sprintf("%08x", req), "CommandLine": "sleep", "Arguments": fmt.Sprintf("%d;%d", c.Jitter, c.Delay%101)})
	code, resp := w.Post(demonref.Batch(r2.ID, 0, nil, r2.Key, r2.IV))
	if code != 200 {
		return core.V("down|checkin-status", "new first hop check-in answered %d", code)
	}
	top, ok := demonref.ReadTasks(resp, r2.Key, r2.IV, 0, "")
	if !ok {
		return core.V("down|framing|hop0|"+tag, "new first hop reply is not a clean task sequence")
	}
	_, old, _, _ := w.Checkin(chain[0], nil)
	if len(top) == 1 && top[0].Cmd == demonref.CmdNoJob {
		where := "nowhere"
		if !(len(old) == 1 && old[0].Cmd == demonref.CmdNoJob) {
			where = fmt.Sprintf("at the old first hop %08x (%d task(s))", chain[0].ID, len(old))
		}
		return core.V("down|after-relink|not-at-the-new-first-hop|"+tag, "%08x reconnected under %08x; a task for %08x (below it) is not handed to %08x at its check-in: it is %s", moved.ID, r2.ID, target.ID, r2.ID, where)
	}
	delivered, v := unwrap(nchain, top, tag)
	if v != nil {
		return v
	}
	if len(delivered) != 1 || delivered[0].Cmd != 11 || delivered[0].ReqID != req {
		return core.V("down|after-relink|task|"+tag, "after the reconnect %d task(s) reached the target (first: cmd %d req %08x), issued one sleep req %08x", len(delivered), delivered[0].Cmd, delivered[0].ReqID, req)
	}
	d := &demonref.Dec{B: delivered[0].Body}
	if a, b := d.Int32(), d.Int32(); a != c.Jitter || b != c.Delay%101 || d.Err {
		return core.V("down|after-relink|args|"+tag, "sleep task under the target's key reads %d;%d, operator sent %d;%d", a, b, c.Jitter, c.Delay%101)
	}
	if !(len(old) == 1 && old[0].Cmd == demonref.CmdNoJob) {
		return core.V("down|after-relink|also-at-the-old-first-hop|"+tag, "the old first hop %08x is still handed %d task(s) for the moved subtree", chain[0].ID, len(old))
	}
	return nil
}

func classify(c Case) core.Class {
	depth := len(c.IDs) - 1
	big := false
	for _, id := range c.IDs {
		if id >= 0x80000000 {
			big = true
		}
	}
	sideCls := "none"
	if c.Side {
		sideCls = "after"
		if c.SideFirst {
			sideCls = "before"
		}
		if c.SideID >= 0x80000000 {
			sideCls += "-big"
		}
	}
	cl := core.Class{NonTrivial: depth >= 2 || big, Fingerprint: fmt.Sprintf("d=%d|big=%v|side=%s|up=%s", depth, big, sideCls, c.Up)}
	if c.IDs[depth] == 0x7fffffff {
		cl.Fingerprint += "|t=maxint32"
	}
	cl.Labels = []string{fmt.Sprintf("depth:%d", depth), "up:" + c.Up}
	if c.Relink > 0 {
		pos := "target-itself"
		if c.Relink < depth {
			pos = "ancestor-of-target"
		}
		cl.Labels = append(cl.Labels, "relink:"+pos)
		if c.StaleFrame != "" {
			cl.Labels = append(cl.Labels, "stale-frame-from-old-parent:"+c.StaleFrame)
		}
		if c.Rekey > 0 && depth-c.Relink >= 1 {
			cl.Labels = append(cl.Labels, "intermediate-hop-announces-a-new-key")
		}
		cl.Fingerprint += "|relink=" + pos
	}
	if big {
		cl.Labels = append(cl.Labels, "id>=2^31")
	}
	for i, e := range c.IVEdge {
		if e > 0 && e < len(demonref.IVEdgeNames) {
			where := "intermediate-hop"
			if i == 0 {
				where = "first-hop"
			} else if i == depth {
				where = "target"
			}
			cl.Labels = append(cl.Labels, "iv-about-to-carry:"+where, "iv:"+demonref.IVEdgeNames[e])
		}
	}
	cl.Labels = append(cl.Labels, cfgLabels(c)...)
	if sl, fp := scaleLabels(c); fp != "" {
		cl.Labels = append(cl.Labels, sl...)
		cl.Fingerprint += "|scale=" + fp
	}
	if ll, fp := largeLabels(c); fp != "" {
		cl.Labels = append(cl.Labels, ll...)
		cl.Fingerprint += "|large=" + fp
	}
	if bl, fp := betweenLabels(c); fp != "none" {
		cl.Labels = append(cl.Labels, bl...)
		cl.Fingerprint += "|btw=" + fp
	}
	return cl
}

func TestC08(t *testing.T) {
	core.Run(t, core.Spec[Case]{
		Property: "C08", Sub: "a",
		Rule: "pivot chains of depth 1-5 (optional sibling of the target) built through real, relayed SMB_CONNECT callbacks; ids from {1,2,2^31-1,2^31,2^32-1,random}, distinct keys, one agent in four with an IV whose counter block is about to carry (all 0xff, low 64 / 32 bits 0xff, ...fffffffe, ...fffffff0-ff, carry through 15 bytes: the Demon counts all 16 bytes as one big-endian counter); two operator tasks (sleep, fs/cd) for the last agent are unwrapped from the first hop's check-in reply layer by layer with each hop's own key and SmbRecv's frame rules; then a callback of the last agent is wrapped once per ancestor in scenarios ok / id never issued / id outstanding only for the parent / encrypted under the parent's key / sent by the sibling with the target's id / one frame mixing callbacks with never-issued ids and the outstanding one in either order; then (2 of 3 cases) one agent of the chain - the target or one of its ancestors - reconnects under a new directly connected agent (in half of these the old parent afterwards still hands in a frame it had read from the moved agent: the link must stay as the reconnect set it; in some a hop between the new first hop and the target answers a CHECKIN task with a new session key, which its layer must then be sealed with) and a third task for the last agent must be found, correctly wrapped for the new chain, at the new first hop and not at the old one. Operator commands between issue and poll (more than half of the cases carry in-between commands, a third extra tasks; about 1 in 5 a `task clear` on an intermediate hop while a descendant's task is pending): together with the target's two tasks, further tasks (sleep, fs/cd) are queued for several agents of the tree - first hop, intermediate hops, target, sibling - before, between and after the target's; then, before the first hop polls, a generated sequence of 1-3 operator commands runs through the real paths (Session/Input with CommandID Teamserver: `task::clear` or `task::list` on the first hop / an intermediate hop / the target / the sibling; a further task for any agent; Session/MarkAsDead marking an agent alive or the sibling dead); every task of the first hop's reply is followed down the tree (each layer must name a child of the hop that opened it) and every task issued for an agent whose queue the operator did not clear (clearing the first hop's queue releases everything waiting there; clearing a pivot agent's queue releases only that agent's own tasks) must arrive exactly once, in the order of issue, under that agent's key with the issued arguments - in particular a descendant's pending task survives `task clear` on a hop above it; nothing unissued or repeated may arrive. SCALE (about 1 case in 85; runs between the setup of the chain and the ordinary steps, which then follow on the same chain): one count is drawn from the threshold-adjacent pool {63,64,65,127,128,129,255,256,257,511,512,513,999,1000,1001,1023,1024,1025,2047,2048,2049,4095,4096,4097} - (1) tasks issued over the life of the chain to ONE pivot agent, the target: pool cut at 4097 in the quick tier, 16385 in the thorough tier; an ordinary polled task before the bulk, in the middle of it a task for another agent of the tree and `task list` on the target, the ordinary two tasks after it; the first and last three, every eighth and the tasks at threshold-adjacent lifetime ordinals go through the whole operator path (Session/Input), the others enter at Agent.AddJobToQueue, the call that path ends in (cost); the first hop polls every k tasks (k from {1,2,3,16,63..65,255..257,1000,1024,4096,never before the end}, raised to count/200) and EVERY task of every polled batch is followed down the tree layer by layer and must be the next task in the order of issue, once, with its arguments; (2) relayed callbacks (pool cut at 513 quick / 4097 thorough): the target answers that many of its outstanding bulk tasks, 1..1025 callbacks per relayed frame (at most 130 frames), each must take effect exactly once on the target's session, one callback with a never-issued id in the middle must not; (3) children of one hop (pool cut at 257 quick / 1025 thorough): that many agents with generated ids connect through relayed SMB_CONNECT under one generated agent of the chain, a task for the target and the newest child is routed half-way, afterwards tasks for the first, last and threshold-adjacent children and for the target must each open at the right agent under its key. CONFIGURATION / ENVIRONMENT (half of the cases keep the fixture's defaults; the others draw, independently and in combination): WebHook block - ts.WebHooks set up as Start() does (object only; Discord Url = an httptest server owned by the case answering 200 / 204 / 500 / 3 ms late / already closed; a Url that cannot be parsed; with or without User and AvatarUrl), so that every new agent is notified on the registration path; Service block with a live service client that registered a third-party agent type and one session of it (1 in 5); Demon.TrustXForwardedFor (listener BehindRedir; the requests carry no X-Forwarded-For, external addresses are empty); three operators in the profile with tasks issued under their names in turn, optionally plus an authenticated operator on a real websocket receiving every broadcast (not in scale cases); kill date (past / future) and working hours in every agent's registration metadata; time.Local set to UTC, +05:30, -08:00, +14:00 or -12:00 for the case. The oracle is unchanged under all of them. LARGE PAYLOAD (about 1 case in 50, not together with SCALE; runs between the setup of the chain and the ordinary steps, which then follow on the same chain): one payload of a size from the threshold-adjacent pool {64 KiB, 64 KiB+1, 1 MiB-64, 1 MiB, 1 MiB+1, 1 MiB+4096, 2 MiB-1, 2 MiB, 2 MiB+1, 3 MiB+17, 4 MiB+1} (thorough tier also 5, 6, 8, 12, 16 MiB) is moved for one agent of the tree (3 of 4 the target, otherwise any of first hop / intermediate hop / target / sibling): DOWN (3 of 4) - the operator uploads a file of that size through Session/Input (fs upload -> UploadMemFileInChunks -> PivotAddJob), the first hop polls until it is told nothing is left, every task of every reply is followed down the tree layer by layer with each hop's own key, and what opens at the addressee under its key must be mem-file records [id][total][bytes] with one id, total = file size, concatenating to exactly the file, followed by the fs/upload task (issued request id, file name, that mem-file id), nothing at any other agent; UP (1 of 2) - the agent answers its outstanding task (the upload, or a delivered sleep task) with a COMMAND_OUTPUT callback of that size wrapped once per ancestor: exactly that text must appear exactly once, on that agent's session, with the stated length. In 3 of 4 large cases one agent of the chain (any position) gets an IV whose low 32 / 64 / 96 / 128 counter bits are 2^bits - k, k drawn from 1..payload blocks+8 or {1,2,4096,65535,65536,65537,131072,blocks/2,blocks}, so that the counter of its layer carries out of those bits somewhere inside (or just past) the payload - the Demon and crypto/cipher count all 16 bytes as one big-endian counter wherever the carry happens (labels large:...). Non-trivial: depth >= 2 or an id >= 2^31; distinct = (depth, big id, sibling, scenario)",
		Gen:   gen, Check: check, Classify: classify,
		Assumptions: []string{"the Demon's pipe framing and PivotPush wrapping are transcribed from TransportSmb.c / Pivot.c / Command.c"},
	})
}

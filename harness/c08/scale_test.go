package c08

// SCALE dimension: the counts the property's subject has, drawn (about 1 case in 40) from the
// threshold-adjacent pool and built by the real paths, with the ordinary small-scale steps of the
// check before, in the middle of and after the bulk:
//
//   tasks    - tasks issued over the life of a chain to ONE pivot agent (the target): the first and
//              last three, every eighth and the ones at threshold-adjacent ordinals through the
//              whole operator path (Session/Input -> TaskPrepare -> AddJobToQueue -> PivotAddJob),
//              the rest entering at AddJobToQueue (the call the operator path ends in), the first
//              hop polling every k tasks (k generated); EVERY task of every
//              polled batch is unwrapped layer by layer (that is cheap) and must be the next task
//              in the order of issue, once, with its arguments
//   up       - relayed callbacks: the target answers that many of its outstanding bulk tasks, a
//              generated number per relayed frame; each must take effect once, on the target's
//              session; a callback with a never-issued id hidden in the middle must not
//   children - agents connected (relayed SMB_CONNECT) under ONE hop of the chain; tasks for the
//              first / last / threshold-adjacent children and for the target must each open, layer
//              by layer, at the right child under its key
//
// After the scale phase the ordinary flow of the check (two operator tasks or the 'between'
// variant, the upward scenario, the reconnect) runs on the same chain.

import (
	"fmt"
	"os"
	"runtime"
	"strings"

	"pgregory.net/rapid"

	"Havoc/pkg/agent"

	"verifharness/internal/agx"
	"verifharness/internal/core"
	"verifharness/internal/demonref"
)

type Scale struct {
	Tasks     int    `json:"tasks,omitempty"`      // bulk tasks for the target
	PollEvery int    `json:"poll_every,omitempty"` // the first hop polls after every k bulk tasks (raised to Tasks/200 if smaller)
	MidWho    int    `json:"mid_who,omitempty"`    // in the middle of the bulk: a task for this other agent of the tree + `task list` on the target
	Up        int    `json:"up,omitempty"`         // relayed callbacks (<= Tasks)
	PerFrame  int    `json:"per_frame,omitempty"`  // callbacks per relayed frame (raised so that there are at most 130 frames)
	Children  int    `json:"children,omitempty"`   // extra children of chain[ChildHop]
	ChildHop  int    `json:"child_hop,omitempty"`
	ChildBase uint32 `json:"child_base,omitempty"`
	ChildStep uint32 `json:"child_step,omitempty"`
}

var scalePool = []int{63, 64, 65, 127, 128, 129, 255, 256, 257, 511, 512, 513, 999, 1000, 1001, 1023, 1024, 1025, 2047, 2048, 2049, 4095, 4096, 4097, 8191, 8192, 8193, 16383, 16384, 16385}

// poolUpTo: the pool values <= max, interleaved across the buckets (rapid prefers the front of a
// sample list: this way every bucket, the largest included, is reached about equally often).
func poolUpTo(max int) []int {
	buckets := [][]int{
		{8192, 8193, 8191, 16384, 16385, 16383},
		{4096, 4097, 4095, 2048, 2049, 2047},
		{64, 65, 63, 128, 129, 127},
		{1024, 1025, 1023, 1000, 1001, 999},
		{256, 257, 255, 512, 513, 511},
	}
	var out []int
	for i := 0; i < 6; i++ {
		for _, b := range buckets {
			if b[i] <= max {
				out = append(out, b[i])
			}
		}
	}
	return out
}

func scaleBucket(n int) string {
	switch {
	case n < 63:
		return "<63"
	case n <= 129:
		return "64-129"
	case n <= 513:
		return "255-513"
	case n <= 1025:
		return "999-1025"
	case n <= 4097:
		return "2047-4097"
	}
	return "8191+"
}

func genScale(t *rapid.T, c *Case) {
	if rapid.IntRange(0, 49).Draw(t, "scale?") != 31 || os.Getenv("VERIF_C08_NOSCALE") != "" {
		return
	}
	depth := len(c.IDs) - 1
	thorough := core.Tier() == "thorough"
	maxTasks, maxUp, maxChildren := 4097, 513, 257
	if thorough {
		maxTasks, maxUp, maxChildren = 16385, 4097, 1025
	}
	s := &Scale{}
	switch rapid.SampledFrom([]string{"tasks", "tasks", "tasks", "up", "children"}).Draw(t, "scale-what") {
	case "tasks":
		s.Tasks = rapid.SampledFrom(poolUpTo(maxTasks)).Draw(t, "scale-tasks")
		s.PollEvery = rapid.SampledFrom([]int{1, 2, 3, 16, 63, 64, 65, 255, 256, 257, 1000, 1024, 4096, 100000}).Draw(t, "poll-every")
		s.MidWho = rapid.IntRange(0, depth+1).Draw(t, "mid-who")
	case "up":
		s.Up = rapid.SampledFrom(poolUpTo(maxUp)).Draw(t, "scale-up")
		s.Tasks = s.Up + rapid.IntRange(0, 2).Draw(t, "unanswered")
		s.PollEvery = rapid.SampledFrom([]int{16, 64, 257, 100000}).Draw(t, "poll-every")
		s.PerFrame = rapid.SampledFrom([]int{1, 2, 3, 16, 63, 64, 65, 255, 256, 257, 1024, 1025}).Draw(t, "per-frame")
	case "children":
		s.Children = rapid.SampledFrom(poolUpTo(maxChildren)).Draw(t, "scale-children")
		s.ChildHop = rapid.IntRange(0, depth).Draw(t, "child-hop")
		s.ChildBase = rapid.Uint32Range(1, 0xffffffff).Draw(t, "child-base")
		s.ChildStep = rapid.SampledFrom([]uint32{1, 2, 0x10001, 0x01000000, 0x7fffffff}).Draw(t, "child-step")
	}
	c.Scale = s
}

func (s *Scale) effPoll() int {
	k := s.PollEvery
	if k < 1 {
		k = 1
	}
	if m := s.Tasks/200 + 1; k < m && s.Tasks > 200 {
		k = m
	}
	return k
}

func (s *Scale) effPerFrame() int {
	k := s.PerFrame
	if k < 1 {
		k = 1
	}
	if m := s.Up/130 + 1; k < m {
		k = m
	}
	return k
}

// reqAlloc hands out request ids that collide neither with each other nor with the ids the
// ordinary steps of the case derive from TaskID.
type reqAlloc struct {
	used map[uint32]bool
	next uint32
}

func newReqAlloc(c Case) *reqAlloc {
	r := &reqAlloc{used: map[uint32]bool{0: true, 0x0badf00d: true, 0x5a5a5a5a: true}, next: c.TaskID ^ 0x20000000}
	for _, m := range []uint32{0, 0x01010101, 0x02020202, 0x03030303, 0x0f0f0f0f, 0x01f1f1f1, 0x01f1f1f0, 0x01f1f1f2, 0x01f1f1f3} {
		r.used[c.TaskID^m] = true
	}
	for n := uint32(0); n < 64; n++ {
		r.used[c.TaskID^(0x40000000|n<<8)] = true
	}
	return r
}

func (r *reqAlloc) get() uint32 {
	for r.used[r.next] {
		r.next++
	}
	r.used[r.next] = true
	v := r.next
	r.next++
	return v
}

// fdRelief: pkg/logr opens the agent's console log for every operator input and every console
// output and leaves closing the descriptor to the garbage collector; a bulk of thousands of inputs
// in a tight loop would run the process out of descriptors (log.Fatal) before a collection happens.
// Not this property's subject: the harness triggers a collection every 512 bulk operations.
func fdRelief(i int) {
	if i%512 == 511 {
		runtime.GC()
	}
}

// viaOperator: which of the target's tasks (by lifetime ordinal n of total) go through the whole
// operator path (Session/Input -> DispatchEvent -> TaskPrepare -> AddJobToQueue): the first and last
// three, every eighth, and the ones next to a pool value; the others enter at AddJobToQueue.
func viaOperator(n, total int) bool {
	if n <= 3 || n > total-3 || n%8 == 0 {
		return true
	}
	for _, v := range scalePool {
		if n >= v-1 && n <= v+2 {
			return true
		}
	}
	return false
}

func opSleep(w *agx.World, s sess, req, a, b uint32) {
	w.Input(opUser(), map[string]interface{}{"DemonID": s.NameID(), "CommandID": "11", "TaskID": fmt.Sprintf("%08x", req), "CommandLine": "sleep", "Arguments": fmt.Sprintf("%d;%d", a, b)})
}

// pollExact: the first hop polls; every task of the reply is followed down the tree and the tasks
// arriving at each agent must be exactly exp[agent] (sleep tasks: req, delay, jitter), in order.
func pollExact(w *agx.World, ns []tnode, base int, exp map[int][]*expTask, depth int, tag, when string) *core.Violation {
	root := ns[0].s
	code, resp := w.Post(demonref.Batch(root.ID, 0, nil, root.Key, root.IV))
	if code != 200 {
		return core.V("down|checkin-status", "first hop check-in answered %d", code)
	}
	top, ok := demonref.ReadTasks(resp, root.Key, root.IV, 0, "")
	if !ok {
		return core.V("down|framing|hop0|"+tag, "first hop reply is not a clean task sequence (%s)", when)
	}
	if len(top) == 1 && top[0].Cmd == demonref.CmdNoJob {
		top = nil
	}
	got := map[int][]demonref.Task{}
	for ti, t := range top {
		at, inner, v := unwrapTree(ns, t, ti, tag)
		if v != nil {
			v.Msg += " [" + when + "]"
			return v
		}
		got[at] = append(got[at], inner)
	}
	for idx := range ns {
		role := roleOf(idx, depth)
		if idx >= base {
			role = "extra-child"
		}
		e, g := exp[idx], got[idx]
		for i := 0; i < len(e) || i < len(g); i++ {
			if i >= len(g) {
				return core.V(fmt.Sprintf("down|scale|task-lost|of=%s|%s", role, tag), "%s: task number %d of its lifetime (req %08x) issued for %s %08x is not in the first hop's reply: %d task(s) were pending for it, %d arrived", when, e[i].n, e[i].req, role, ns[idx].s.ID, len(e), len(g))
			}
			if i >= len(e) {
				return core.V(fmt.Sprintf("down|scale|unissued-or-repeated-task|at=%s|%s", role, tag), "%s: %s %08x is handed cmd %d req %08x beyond the %d task(s) pending for it", when, role, ns[idx].s.ID, g[i].Cmd, g[i].ReqID, len(e))
			}
			if g[i].ReqID != e[i].req || g[i].Cmd != e[i].cmd {
				return core.V(fmt.Sprintf("down|scale|task-order|at=%s|%s", role, tag), "%s: position %d of the batch for %s %08x is cmd %d req %08x, the next task in the order of issue is number %d: cmd %d req %08x", when, i, role, ns[idx].s.ID, g[i].Cmd, g[i].ReqID, e[i].n, e[i].cmd, e[i].req)
			}
			d := &demonref.Dec{B: g[i].Body}
			if a, b := d.Int32(), d.Int32(); a != e[i].a || b != e[i].b || d.Err {
				return core.V(fmt.Sprintf("down|scale|task-args|at=%s|%s", role, tag), "%s: sleep task number %d under the key of %s %08x reads %d;%d, operator sent %d;%d", when, e[i].n, role, ns[idx].s.ID, a, b, e[i].a, e[i].b)
			}
		}
	}
	return nil
}

func scalePhase(c Case, w *agx.World, chain []sess, side sess, tag string) *core.Violation {
	s := c.Scale
	if s == nil {
		return nil
	}
	if s.Children > 0 {
		return scaleChildren(c, w, chain, side, tag)
	}
	if s.Tasks <= 0 {
		return nil
	}
	depth := len(chain) - 1
	ns := buildTree(c, chain, side)
	target := chain[depth]
	tag += "|scale"
	ids := newReqAlloc(c)
	exp := map[int][]*expTask{}
	life := map[int]int{}
	tg := w.Agent(target.ID)
	issue := func(idx int, a, b uint32) *expTask {
		life[idx]++
		e := &expTask{req: ids.get(), cmd: 11, a: a, b: b, n: life[idx]}
		if idx == depth && tg != nil && !viaOperator(life[idx], s.Tasks+1) {
			// the call the operator path ends in (dispatch.go: TaskPrepare, then AddJobToQueue), with the job TaskPrepare builds for `sleep`
			tg.AddJobToQueue(agent.Job{Command: agent.COMMAND_SLEEP, RequestID: e.req, TaskID: fmt.Sprintf("%08x", e.req), CommandLine: "sleep", Data: []interface{}{int(a), int(b)}})
		} else {
			opSleep(w, ns[idx].s, e.req, a, b)
		}
		exp[idx] = append(exp[idx], e)
		return e
	}
	// BEFORE the bulk: one ordinary task, polled
	issue(depth, c.Delay, c.Jitter)
	if v := pollExact(w, ns, len(ns), exp, depth, tag, "before the bulk"); v != nil {
		return v
	}
	exp = map[int][]*expTask{}
	k := s.effPoll()
	var bulk []*expTask
	for i := 1; i <= s.Tasks; i++ {
		bulk = append(bulk, issue(depth, uint32(i), uint32(i%101)))
		fdRelief(i)
		if i == (s.Tasks+1)/2 {
			// IN THE MIDDLE: a task for another agent of the tree and `task list` on the target
			if mid := resolveWho(s.MidWho, len(ns)); mid != depth {
				issue(mid, c.Jitter, c.Delay%101)
			}
			teamserverCmd(w, target, "task list", "task::list", 0x100)
		}
		if i%k == 0 || i == s.Tasks {
			if v := pollExact(w, ns, len(ns), exp, depth, tag, fmt.Sprintf("bulk of %d tasks for the target, first hop polling every %d: poll after task %d", s.Tasks, k, i+1)); v != nil {
				return v
			}
			exp = map[int][]*expTask{}
		}
	}
	if s.Up <= 0 {
		return nil
	}
	// ---- relayed callbacks: the target answers its first Up bulk tasks (COMMAND_SLEEP callback:
	// delay, jitter -> "Set sleep interval to .." on ITS session), PerFrame callbacks per relayed frame
	n := s.Up
	if n > len(bulk) {
		n = len(bulk)
	}
	per := s.effPerFrame()
	from := len(w.TS.EventsList)
	const never = 0x7ffffff1
	for i := 0; i < n; i += per {
		if i/512 != (i+per)/512 {
			runtime.GC()
		}
		var subs []demonref.Sub
		for j := i; j < i+per && j < n; j++ {
			e := bulk[j]
			subs = append(subs, demonref.Sub{Cmd: agent.COMMAND_SLEEP, ReqID: e.req, Body: (&demonref.Enc{}).Int32(e.a).Int32(e.b).B})
			if j == n/2 {
				// an id that was never issued, in the middle of the stream
				subs = append(subs, demonref.Sub{Cmd: agent.COMMAND_SLEEP, ReqID: ids.get(), Body: (&demonref.Enc{}).Int32(never).Int32(7).B})
			}
		}
		pkg := demonref.Batch(target.ID, 0, subs, target.Key, target.IV)
		if code, _ := w.Post(wrapUp(chain, depth, pkg)); code != 200 {
			return core.V("up|scale|status|"+tag, "relayed frame %d of %d callbacks answered %d", i/per, len(subs), code)
		}
	}
	seen := map[uint32]int{}
	for id, ts := range consoleTexts(w.EventsSince(from)) {
		for _, tx := range ts {
			var d, j uint32
			if k := strings.Index(tx, "Set sleep interval to "); k >= 0 {
				if _, err := fmt.Sscanf(tx[k:], "Set sleep interval to %d seconds with %d%% jitter", &d, &j); err != nil {
					continue
				}
				if d == never {
					return core.V("up|scale|accepted|never-issued-id|"+tag, "among %d relayed callbacks (%d per frame) one carried a request id that was never issued; it had an effect on session %s", n, per, id)
				}
				if id != target.NameID() {
					return core.V("up|scale|misattributed|"+tag, "callback number %d of %08x (of %d, %d per frame) was attributed to session %s", d, target.ID, n, per, id)
				}
				seen[d]++
			}
		}
	}
	for i := 0; i < n; i++ {
		if cnt := seen[bulk[i].a]; cnt != 1 {
			what := "dropped"
			if cnt > 1 {
				what = "repeated"
			}
			return core.V("up|scale|"+what+"|"+tag, "the target answered %d outstanding tasks (%d callbacks per relayed frame, %d hop(s)); the answer to task number %d had %d effects on its session", n, per, depth, i+1, cnt)
		}
	}
	return nil
}

// scaleChildren: Children agents connect under chain[ChildHop]; in the middle a task for the target is
// routed; afterwards tasks for the first, the last and the threshold-adjacent children and the target.
func scaleChildren(c Case, w *agx.World, chain []sess, side sess, tag string) *core.Violation {
	s := c.Scale
	depth := len(chain) - 1
	ns := buildTree(c, chain, side)
	hop := resolveWho(s.ChildHop, depth+1)
	tag += "|scale-children"
	taken := map[uint32]bool{0: true, c.SideID: true, c.NewRoot: true}
	for _, id := range c.IDs {
		taken[id] = true
	}
	if c.Cfg != nil {
		taken[c.Cfg.TPID] = true
	}
	ids := newReqAlloc(c)
	first := len(ns)
	id := s.ChildBase
	step := s.ChildStep
	if step == 0 {
		step = 1
	}
	life := map[int]int{}
	issue := func(exp map[int][]*expTask, idx int, a, b uint32) {
		life[idx]++
		e := &expTask{req: ids.get(), cmd: 11, a: a, b: b, n: life[idx]}
		opSleep(w, ns[idx].s, e.req, a, b)
		exp[idx] = append(exp[idx], e)
	}
	for j := 0; j < s.Children; j++ {
		if j > 0 {
			id += step
		}
		for taken[id] {
			id++ // (a step with a short period comes back to ids already used)
		}
		taken[id] = true
		k, iv := keyFrom(byte(j*7 + 1))
		iv[3] ^= byte(j >> 8)
		ch := sess{ID: id, Key: k, IV: iv, Meta: metaFor(c, id)}
		init := ch.Meta.InitPackage(ch.ID, ch.Key, ch.IV)
		body := (&demonref.Enc{}).Int32(demonref.PivotSmbCon).Int32(1).Bytes(init).B
		p := chain[hop]
		pkg := demonref.Batch(p.ID, 0, []demonref.Sub{{Cmd: demonref.CmdPivot, ReqID: 0, Body: body}}, p.Key, p.IV)
		if code, _ := w.Post(wrapUp(chain, hop, pkg)); code != 200 {
			return core.V("setup|smb-connect-status", "SMB_CONNECT of child number %d (%08x) under %08x answered %d", j+1, ch.ID, p.ID, code)
		}
		a := w.Agent(ch.ID)
		if a == nil {
			return core.V("connect|scale|child-not-registered|"+tag, "child number %d (%08x) connected under %08x (depth %d) was not registered", j+1, ch.ID, p.ID, hop+1)
		}
		if a.Pivots.Parent == nil || a.Pivots.Parent.NameID != p.NameID() {
			return core.V("connect|scale|wrong-parent|"+tag, "child number %d (%08x): parent is %v, connected under %s", j+1, ch.ID, a.Pivots.Parent, p.NameID())
		}
		ns = append(ns, tnode{s: ch, parent: hop})
		fdRelief(j * 4)
		if j+1 == (s.Children+1)/2 {
			w.Checkin(chain[0], nil)
			exp := map[int][]*expTask{}
			issue(exp, depth, c.Delay, c.Jitter)
			issue(exp, len(ns)-1, c.Jitter, 3)
			if v := pollExact(w, ns, first, exp, depth, tag, fmt.Sprintf("after %d of %d children connected under hop %d", j+1, s.Children, hop)); v != nil {
				return v
			}
		}
	}
	w.Checkin(chain[0], nil)
	exp := map[int][]*expTask{}
	picked := map[int]bool{}
	pick := func(j int) {
		if j >= 0 && j < s.Children && !picked[j] {
			picked[j] = true
			issue(exp, first+j, uint32(j), uint32(j%101))
		}
	}
	pick(0)
	issue(exp, depth, c.Delay^1, c.Jitter)
	for _, v := range scalePool {
		pick(v - 1)
		pick(v)
	}
	pick(s.Children - 1)
	issue(exp, depth, c.Delay^2, c.Jitter)
	return pollExact(w, ns, first, exp, depth, tag, fmt.Sprintf("%d children connected under hop %d", s.Children, hop))
}

func scaleLabels(c Case) ([]string, string) {
	s := c.Scale
	if s == nil {
		return nil, ""
	}
	var out []string
	fp := ""
	if s.Children > 0 {
		out = append(out, "scale:children-of-one-hop:"+scaleBucket(s.Children))
		fp = "children"
	} else if s.Tasks > 0 {
		out = append(out, "scale:tasks-to-one-pivot-agent:"+scaleBucket(s.Tasks+1))
		k := s.effPoll()
		pk := "first-hop-polls-every:"
		switch {
		case k >= s.Tasks:
			pk += "only-at-the-end"
		case k <= 3:
			pk += "1-3"
		case k <= 65:
			pk += "4-65"
		default:
			pk += "66+"
		}
		out = append(out, "scale:"+pk)
		fp = "tasks"
		if s.Up > 0 {
			out = append(out, "scale:relayed-callbacks:"+scaleBucket(s.Up), "scale:callbacks-per-relayed-frame:"+scaleBucket(s.effPerFrame()))
			fp = "up"
		}
	}
	return out, fp
}
